// w_c19.cc — C19: OpenPGP encodings conform to RFC 4880 (+RFC 6637, 4880bis v5/AEAD framing) and round-trip.
//
// Oracles
//  (1) every emitted octet string is recorded as (function, input, output) and recomputed by the
//      independent Python reference ref/c19_rfc4880.py in props/c19.py:post()
//  (2) round trip, judged here: decoding what was emitted recovers the encoded fields
//  (3) gpg 2.2 as second judge: packet sequences are handed to post() as {"f":"gpg",...} records
//  (4) refusal, judged here: damaged armor => ArmorDecode returns TMCG_OPENPGP_ARMOR_UNKNOWN
// Decode direction: packets framed by a small harness-side encoder (old format, partial body
// lengths, non-minimal lengths) are decoded by the library; post() parses the same octets with the
// reference and compares.
#include "engine.hh"
#include "libTMCG_config.h"   // VERSION (used in the armor "Version:" header)
#include <set>
#include <algorithm>

using namespace vf;
typedef tmcg_openpgp_octets_t Oct;
typedef CallasDonnerhackeFinneyShawThayerRFC4880 PGP;

// ---------------------------------------------------------------- helpers
static std::string hx(const Oct &o) { return hex(o.data(), o.size()); }
static std::string sx(const std::string &s) { return hex((const unsigned char *)s.data(), s.size()); }
static std::string hxp(const unsigned char *p, size_t n) { return hex(p, n); }
static Oct rnd(Rng &r, size_t n) { Oct o(n); for (auto &c : o) c = r.next() >> 56; return o; }
static Oct str2oct(const std::string &s) { return Oct(s.begin(), s.end()); }
static std::string oct2str(const Oct &o) { return std::string(o.begin(), o.end()); }
static long long g_evals = 0;     // oracle evaluations in the current case
static std::set<std::string> g_distinct;
static void ev(const std::string &what) { g_evals++; g_distinct.insert(what); }
static void V(const std::string &key, const std::string &what, const J &w) { violation("C19/" + key, what, w.str()); }

static std::string mhex(gcry_mpi_t m) {
	if (!m) return "null";
	unsigned char *b = nullptr; size_t n = 0;
	if (gcry_mpi_aprint(GCRYMPI_FMT_USG, &b, &n, m)) return "err";
	std::string s = n ? hex(b, n) : "00"; gcry_free(b); return s;
}
static gcry_mpi_t mpi_bytes(const Oct &o) { gcry_mpi_t m = nullptr; gcry_mpi_scan(&m, GCRYMPI_FMT_USG, o.data(), o.size(), nullptr); return m; }
static gcry_mpi_t mpi_ui(unsigned long v) { gcry_mpi_t m = gcry_mpi_new(64); gcry_mpi_set_ui(m, v); return m; }
// random value of exactly `bits` bits (bits >= 1)
static gcry_mpi_t mpi_rand(Rng &r, size_t bits) {
	if (!bits) return mpi_ui(0);
	Oct o = rnd(r, (bits + 7) / 8); size_t top = bits % 8;
	if (top) o[0] &= (1u << top) - 1;
	o[0] |= 1u << ((bits - 1) % 8);
	return mpi_bytes(o);
}
static bool meq(gcry_mpi_t a, gcry_mpi_t b) { return a && b && gcry_mpi_cmp(a, b) == 0; }
static std::vector<std::string> mhexv(const std::vector<gcry_mpi_t> &v) { std::vector<std::string> o; for (auto m : v) o.push_back(mhex(m)); return o; }

struct Dec {   // one PacketDecode call with everything it may allocate
	tmcg_openpgp_packet_ctx_t ctx; Oct cur, rest; tmcg_openpgp_byte_t ret;
	std::vector<gcry_mpi_t> qual, xq, v_i; std::vector<std::string> capl; std::vector<std::vector<gcry_mpi_t> > c_ik;
	tmcg_openpgp_notations_t notations; tmcg_openpgp_multiple_octets_t esigs, rfprs;
	explicit Dec(const Oct &pkt) : rest(pkt) {
		ret = PGP::PacketDecode(rest, 0, ctx, cur, qual, xq, capl, v_i, c_ik, notations, esigs, rfprs);
		count("dec_PacketDecode");
	}
	~Dec() {
		PGP::PacketContextRelease(ctx);
		for (auto m : qual) gcry_mpi_release(m); for (auto m : xq) gcry_mpi_release(m); for (auto m : v_i) gcry_mpi_release(m);
		for (auto &row : c_ik) for (auto m : row) gcry_mpi_release(m);
	}
	Dec(const Dec &) = delete;
};
static bool bufeq(const unsigned char *p, size_t n, const Oct &o) { return n == o.size() && (n == 0 || memcmp(p, o.data(), n) == 0); }

// harness-side framing (RFC 4880 4.2), used only to build *inputs* for the decode direction; post()
// re-parses the same octets with the Python reference
static void hb_len_new(size_t n, int form, Oct &o) {   // form 1,2,5 octets (caller guarantees n fits)
	if (form == 1) o.push_back(n);
	else if (form == 2) { o.push_back(((n - 192) >> 8) + 192); o.push_back((n - 192) & 255); }
	else { o.push_back(255); o.push_back(n >> 24); o.push_back(n >> 16); o.push_back(n >> 8); o.push_back(n); }
}
static int hb_min_form(size_t n) { return n < 192 ? 1 : (n <= 8383 ? 2 : 5); }
static Oct hb_old(unsigned tag, int lt, const Oct &body) {
	Oct o; o.push_back(0x80 | (tag << 2) | lt); size_t n = body.size();
	if (lt == 0) o.push_back(n); else if (lt == 1) { o.push_back(n >> 8); o.push_back(n); }
	else if (lt == 2) { o.push_back(n >> 24); o.push_back(n >> 16); o.push_back(n >> 8); o.push_back(n); }
	o.insert(o.end(), body.begin(), body.end()); return o;
}
static Oct hb_new(unsigned tag, int form, const Oct &body) { Oct o; o.push_back(0xC0 | tag); hb_len_new(body.size(), form, o); o.insert(o.end(), body.begin(), body.end()); return o; }
static Oct hb_partial(unsigned tag, const std::vector<int> &exps, const Oct &body) {
	Oct o; o.push_back(0xC0 | tag); size_t off = 0;
	for (int e : exps) { o.push_back(224 + e); o.insert(o.end(), body.begin() + off, body.begin() + off + ((size_t)1 << e)); off += (size_t)1 << e; }
	size_t rest = body.size() - off; hb_len_new(rest, hb_min_form(rest), o); o.insert(o.end(), body.begin() + off, body.end()); return o;
}

static const char *R64 = "ABCDEFGHIJKLMNOPQRSTUVWXYZabcdefghijklmnopqrstuvwxyz0123456789+/";
static const tmcg_openpgp_armor_t ARMOR_TYPES[4] = { TMCG_OPENPGP_ARMOR_MESSAGE, TMCG_OPENPGP_ARMOR_SIGNATURE, TMCG_OPENPGP_ARMOR_PRIVATE_KEY_BLOCK, TMCG_OPENPGP_ARMOR_PUBLIC_KEY_BLOCK };
static const char *ARMOR_TITLE(int t) { return t == 1 ? "PGP MESSAGE" : t == 2 ? "PGP SIGNATURE" : t == 5 ? "PGP PRIVATE KEY BLOCK" : "PGP PUBLIC KEY BLOCK"; }

// gpg case: a packet sequence (or armored key block) for the second judge
static void gpg_case(const std::string &kind, const std::string &label, const Oct &octets, const std::string &extra_json = "") {
	J j; j.kv("f", "gpg").kv("kind", kind).kv("label", label).kv("octets", hx(octets));
	if (!extra_json.empty()) j.raw("x", extra_json);
	record(j.str()); count("gpg_cases_" + kind);
}

// ---------------------------------------------------------------- group A: byte strings
static void check_refusal(const std::string &cls, const std::string &text, size_t n, int type) {
	Oct out; tmcg_openpgp_armor_t t = PGP::ArmorDecode(text, out);
	count("refusal_" + cls); ev("refusal/" + cls);
	if (t != TMCG_OPENPGP_ARMOR_UNKNOWN)
		V("refusal/" + cls + "-accepted", "ArmorDecode accepted a damaged armor block (" + cls + ")",
		  J().kv("class", cls).kv("data_len", (long long)n).kv("type", type).kv("returned", (int)t).kv("armor", shorten(text, 1500)));
}

static void armor_checks(Rng &r, int type, const Oct &data, bool with_headers, bool full_refusal) {
	size_t n = data.size();
	std::string armor, comment;
	if (with_headers) {
		size_t cl = 1 + r.below(40); for (size_t i = 0; i < cl; i++) comment += (char)(0x21 + r.below(0x5e));
		PGP::ArmorEncode((tmcg_openpgp_armor_t)type, comment, data, armor, true);
	} else PGP::ArmorEncode((tmcg_openpgp_armor_t)type, data, armor);
	count("enc_ArmorEncode");
	record(J().kv("f", "armor").kv("type", type).kv("comment", comment).kv("version", with_headers).kv("verstr", std::string(VERSION)).kv("in", hx(data)).kv("out_txt", armor).str());
	// (2) round trip
	Oct back; tmcg_openpgp_armor_t t = PGP::ArmorDecode(armor, back); count("dec_ArmorDecode"); ev("armor-roundtrip");
	if (n == 0) {
		if (t != (tmcg_openpgp_armor_t)type || back.size() != 0)
			V("roundtrip/armor-empty-data", "ArmorDecode(ArmorEncode(x)) does not recover an empty x",
			  J().kv("type", type).kv("returned", (int)t).kv("armor", armor));
	} else {
		if (t != (tmcg_openpgp_armor_t)type)
			V("roundtrip/armor-type", "ArmorDecode returned a different armor type than was encoded", J().kv("type", type).kv("returned", (int)t).kv("data_len", (long long)n).kv("in", shorten(hx(data), 600)).kv("armor", shorten(armor, 1500)));
		else if (back != data)
			V("roundtrip/armor-data", "ArmorDecode(ArmorEncode(x)) != x", J().kv("type", type).kv("data_len", (long long)n).kv("in", shorten(hx(data), 600)).kv("got", shorten(hx(back), 600)));
	}
	// LF-only transport of the same block must decode as well (RFC 4880 6.2 does not fix the line ending)
	if (n > 0 && n <= 200) {
		std::string lf; for (char c : armor) if (c != '\r') lf += c;
		Oct b2; tmcg_openpgp_armor_t t2 = PGP::ArmorDecode(lf, b2); ev("armor-roundtrip-lf");
		if (t2 != (tmcg_openpgp_armor_t)type || b2 != data) V("roundtrip/armor-lf", "armor block with LF line endings not recovered", J().kv("type", type).kv("returned", (int)t2).kv("data_len", (long long)n));
	}
	if (n == 0 || t != (tmcg_openpgp_armor_t)type) return;
	// (4) refusal catalogue on this block
	std::string begin = std::string("-----BEGIN ") + ARMOR_TITLE(type) + "-----\r\n", end = std::string("-----END ") + ARMOR_TITLE(type) + "-----\r\n";
	size_t body0 = armor.find("\r\n\r\n") + 4;            // first radix-64 character
	size_t crcpos = armor.rfind("\r\n=") + 3;               // first checksum character
	size_t endpos = armor.rfind("-----END ");
	// a. wrong checksum: each of the four checksum characters replaced by another alphabet character
	for (int i = 0; i < 4; i++) {
		if (!full_refusal && i != (int)r.below(4)) continue;
		std::string m = armor; char c; do c = R64[r.below(64)]; while (c == m[crcpos + i]); m[crcpos + i] = c;
		check_refusal("wrong-crc", m, n, type);
	}
	// b. one data character (outside the final quantum) replaced: the decoded octets differ in a burst <= 24 bits,
	//    which CRC-24 always detects
	{
		size_t datalen = crcpos - 3 - body0; std::vector<size_t> cand;
		for (size_t i = 0; i + 6 < datalen; i++) { char c = armor[body0 + i]; if (c != '\r' && c != '\n') cand.push_back(body0 + i); }
		int reps = full_refusal ? 3 : 1;
		for (int k = 0; k < reps && !cand.empty(); k++) {
			std::string m = armor; size_t p = cand[r.below(cand.size())]; char c; do c = R64[r.below(64)]; while (c == m[p]); m[p] = c;
			check_refusal("data-vs-crc", m, n, type);
		}
	}
	// c. nested BEGIN line inside the body (before a data line / before the checksum line)
	{
		std::vector<size_t> linestarts; linestarts.push_back(body0);
		for (size_t p = body0; p + 2 < crcpos; p++) if (armor[p] == '\r' && armor[p + 1] == '\n') linestarts.push_back(p + 2);
		size_t at = linestarts[r.below(linestarts.size())];
		const char *other = ARMOR_TITLE(ARMOR_TYPES[r.below(4)]);
		std::string m = armor; m.insert(at, std::string("-----BEGIN ") + other + "-----\r\n");
		check_refusal("nested-begin", m, n, type);
		if (full_refusal) { std::string m2 = armor; m2.insert(crcpos - 1, begin); check_refusal("nested-begin", m2, n, type); }
	}
	// d. blank separator line missing
	{ std::string m = armor; m.erase(body0 - 2, 2); check_refusal("no-blank-line", m, n, type); }
	// e. END line missing / END line of another type
	{ std::string m = armor.substr(0, endpos); check_refusal("no-end-line", m, n, type); }
	{
		int ot; do ot = ARMOR_TYPES[r.below(4)]; while (ot == type);
		std::string m = armor.substr(0, endpos) + "-----END " + ARMOR_TITLE(ot) + "-----\r\n"; check_refusal("end-line-mismatch", m, n, type);
	}
}

static void lit_roundtrip(const Oct &pkt, const Oct &data, const char *how, bool newfmt, bool indet = false) {
	Dec d(pkt); ev(std::string("pkt-roundtrip/lit/") + how);
	J w; w.kv("how", how).kv("data_len", (long long)data.size()).kv("ret", (int)d.ret).kv("packet", shorten(hx(pkt), 400));
	if (data.size() == 0) {
		if (d.ret != 11 || d.ctx.datalen != 0) V("roundtrip/literal-empty-data", "PacketDecode does not recover a literal data packet with empty data", w);
		return;
	}
	if (d.ret != 11) { V(std::string("roundtrip/literal-") + how + "-refused", "PacketDecode refused a well-formed literal data packet", w); return; }
	if (d.ctx.newformat != newfmt || d.ctx.indetlen != indet || d.ctx.tag != 11) V("roundtrip/literal-header-fields", "decoded header fields differ", w.kv("newformat", d.ctx.newformat).kv("indetlen", d.ctx.indetlen));
	if (d.ctx.dataformat != 0x62 || d.ctx.datafilenamelen != 0 || d.ctx.datatime != (uint32_t)g_vtime) V("roundtrip/literal-fields", "decoded literal fields differ", w.kv("format", (int)d.ctx.dataformat).kv("time", (long long)d.ctx.datatime));
	if (!bufeq(d.ctx.data, d.ctx.datalen, data)) V(std::string("roundtrip/literal-") + how + "-data", "decoded literal data differ from the encoded data", w.kv("got_len", (long long)d.ctx.datalen));
	if (!d.rest.empty() || d.cur != pkt) V("roundtrip/packet-consumed", "PacketDecode did not consume exactly the packet", w.kv("rest", (long long)d.rest.size()));
	if (strcmp(how, "emitted")) {
		unsigned char dg[32]; gcry_md_hash_buffer(GCRY_MD_SHA256, dg, d.ctx.data, d.ctx.datalen);   // libgcrypt directly, not library code
		record(J().kv("f", "pktdec").kv("how", how).kv("octets", hx(pkt)).kv("ret", (int)d.ret).kv("tag", (int)d.ctx.tag).kv("newformat", d.ctx.newformat).kv("indet", d.ctx.indetlen).kv("data_len", (long long)d.ctx.datalen).kv("data_sha256", hxp(dg, 32)).str());
	}
}

// --- decode direction: harness-framed literal packets (old format, non-minimal, partial lengths)
static void decode_direction(const Oct &data, bool reduced) {
	{
		Oct body; body.push_back(0x62); body.push_back(0); body.push_back(g_vtime >> 24); body.push_back(g_vtime >> 16); body.push_back(g_vtime >> 8); body.push_back(g_vtime);
		body.insert(body.end(), data.begin(), data.end());
		size_t bl = body.size();
		if (bl < 256) { lit_roundtrip(hb_old(11, 0, body), data, "old-1", false); count("dec_oldfmt_len1"); }
		if (bl < 65536) { lit_roundtrip(hb_old(11, 1, body), data, "old-2", false); count("dec_oldfmt_len2"); }
		if (!reduced) { lit_roundtrip(hb_old(11, 2, body), data, "old-4", false); count("dec_oldfmt_len4"); }
		if (!reduced) { lit_roundtrip(hb_old(11, 3, body), data, "old-indeterminate", false, true); count("dec_oldfmt_indet"); }
		if (hb_min_form(bl) != 5) { lit_roundtrip(hb_new(11, 5, body), data, "new-5-nonminimal", true); count("dec_newfmt_len5_nonminimal"); }
		if (bl >= 192 && bl <= 8383) count("dec_newfmt_len2"); else if (bl < 192) count("dec_newfmt_len1"); else count("dec_newfmt_len5");
		if (bl >= 512) {
			std::vector<std::vector<int> > plans;
			if (!reduced) plans.push_back({9});
			if (bl >= 1024 && !reduced) { plans.push_back({9, 9}); plans.push_back({10}); }
			if (bl >= 512 + 1 + 2 + 64 && !reduced) plans.push_back({9, 0, 1, 6});
			{ int e = 9; while (((size_t)2 << e) <= bl) e++; if (e > 10) plans.push_back({e}); }      // one maximal chunk
			if (bl >= 8192 + 4096) plans.push_back({13, 12});
			for (auto &pl : plans) { size_t s = 0; for (int e : pl) s += (size_t)1 << e; if (s > bl) continue;
				lit_roundtrip(hb_partial(11, pl, body), data, "partial", true); count("dec_partial_body"); count("dec_partial_chunks", (long long)pl.size()); }
		}
	}
}

static void do_bytes(Rng &r, size_t n, const Oct &data, int variant, bool big) {
	std::string inhex = hx(data);
	// --- radix-64
	for (int lb = 1; lb >= 0; lb--) {
		if (!lb && big) continue;
		std::string enc; PGP::Radix64Encode(data, enc, lb != 0); count("enc_Radix64Encode");
		record(J().kv("f", "radix64").kv("lb", lb != 0).kv("in", inhex).kv("out_txt", enc).str());
		Oct back; PGP::Radix64Decode(enc, back); count("dec_Radix64Decode"); ev("radix64-roundtrip");
		if (back != data) V("roundtrip/radix64", "Radix64Decode(Radix64Encode(x)) != x", J().kv("len", (long long)n).kv("linebreaks", lb != 0).kv("in", shorten(inhex, 600)).kv("got", shorten(hx(back), 600)));
	}
	// --- CRC-24
	{ Oct c; PGP::CRC24Compute(data, c); std::string ce; PGP::CRC24Encode(data, ce); count("enc_CRC24Compute"); count("enc_CRC24Encode");
	  record(J().kv("f", "crc24").kv("in", inhex).kv("out", hx(c)).kv("out_txt", ce).str()); }
	// --- armor
	if (!big) {
		if (variant == 0 && n <= 200) for (int t = 0; t < 4; t++) armor_checks(r, ARMOR_TYPES[t], data, (n + t) % 5 == 0, n <= 66 && t == (int)(n % 4));
		else armor_checks(r, ARMOR_TYPES[(n + variant) % 4], data, n % 3 == 0, false);
	} else armor_checks(r, ARMOR_TYPES[n % 4], data, false, false);
	// --- body length
	{ Oct l; PGP::PacketLengthEncode(n, l); count("enc_PacketLengthEncode");
	  record(J().kv("f", "len").kv("n", (long long)n).kv("out", hx(l)).str());
	  uint32_t ln = 0; bool part = true; size_t used = PGP::PacketLengthDecode(l, true, 0, ln, part); count("dec_PacketLengthDecode"); ev("len-roundtrip");
	  if (used != l.size() || ln != n || part) V("roundtrip/length", "PacketLengthDecode(PacketLengthEncode(n)) != n", J().kv("n", (long long)n).kv("octets", hx(l)).kv("len", (long long)ln).kv("used", (long long)used).kv("partial", part)); }
	// --- packets with an n-octet body
	{ Oct p; PGP::PacketLitEncode(data, p); count("enc_PacketLitEncode");
	  record(J().kv("f", "lit").kv("in", inhex).kv("time", (long long)g_vtime).kv("out", hx(p)).str());
	  lit_roundtrip(p, data, "emitted", true);
	  if (variant == 0 && (n <= 8 || n == 185 || n == 186 || n == 191 || n == 192 || n == 8377 || n == 8378 || n == 8383 || n == 8384 || n == 65530 || n == 65536)) gpg_case("list", "lit" + std::to_string(n), p); }
	if (big && n > 70000) { decode_direction(data, true); return; }
	{ Oct p; PGP::PacketSedEncode(data, p); count("enc_PacketSedEncode");
	  record(J().kv("f", "sed").kv("in", inhex).kv("out", hx(p)).str());
	  if (n > 0) { Dec d(p); ev("pkt-roundtrip/sed");
	    if (d.ret != 9 || !bufeq(d.ctx.encdata, d.ctx.encdatalen, data) || !d.rest.empty() || !d.ctx.newformat) V("roundtrip/sed", "symmetrically encrypted data packet not recovered", J().kv("len", (long long)n).kv("ret", (int)d.ret).kv("packet", shorten(hx(p), 400))); } }
	{ Oct p; PGP::PacketSeipdEncode(data, p); count("enc_PacketSeipdEncode");
	  record(J().kv("f", "seipd").kv("in", inhex).kv("out", hx(p)).str());
	  if (n > 0) { Dec d(p); ev("pkt-roundtrip/seipd");
	    if (d.ret != 18 || d.ctx.version != 1 || !bufeq(d.ctx.encdata, d.ctx.encdatalen, data) || !d.rest.empty()) V("roundtrip/seipd", "SEIPD packet not recovered", J().kv("len", (long long)n).kv("ret", (int)d.ret).kv("packet", shorten(hx(p), 400))); } }
	{ Oct p; PGP::PacketUidEncode(oct2str(data), p); count("enc_PacketUidEncode");
	  record(J().kv("f", "uid").kv("in", inhex).kv("out", hx(p)).str());
	  Dec d(p); ev("pkt-roundtrip/uid");
	  if (d.ret != 13 || !bufeq(d.ctx.uiddata, d.ctx.uiddatalen, data) || !d.rest.empty()) V("roundtrip/uid", "user ID packet not recovered", J().kv("len", (long long)n).kv("ret", (int)d.ret).kv("packet", shorten(hx(p), 400))); }
	{ int sk = 7 + (int)(n % 3), ae = 1 + (int)((n / 3) % 2); tmcg_openpgp_byte_t cs = (tmcg_openpgp_byte_t)(n % 17);
	  Oct iv = rnd(r, ae == 1 ? 16 : 15), p;
	  PGP::PacketAeadEncode((tmcg_openpgp_skalgo_t)sk, (tmcg_openpgp_aeadalgo_t)ae, cs, iv, data, p); count("enc_PacketAeadEncode");
	  record(J().kv("f", "aead").kv("skalgo", sk).kv("aeadalgo", ae).kv("chunk", (int)cs).kv("iv", hx(iv)).kv("in", inhex).kv("out", hx(p)).str());
	  if (n > 0) { Dec d(p); ev("pkt-roundtrip/aead");
	    if (d.ret != 20 || d.ctx.version != 1 || (int)d.ctx.skalgo != sk || (int)d.ctx.aeadalgo != ae || d.ctx.chunksize != cs || memcmp(d.ctx.iv, iv.data(), iv.size()) || !bufeq(d.ctx.encdata, d.ctx.encdatalen, data) || !d.rest.empty())
	      V("roundtrip/aead", "AEAD encrypted data packet not recovered", J().kv("len", (long long)n).kv("ret", (int)d.ret).kv("packet", shorten(hx(p), 400))); } }
	{ tmcg_openpgp_byte_t ty = (tmcg_openpgp_byte_t)(1 + n % 100); bool crit = (n / 2) % 2; Oct p; PGP::SubpacketEncode(ty, crit, data, p); count("enc_SubpacketEncode");
	  record(J().kv("f", "subpkt").kv("type", (int)ty).kv("critical", crit).kv("in", inhex).kv("out", hx(p)).str()); }
	{ Oct p; PGP::PacketStringEncode(oct2str(data), p); count("enc_PacketStringEncode");
	  record(J().kv("f", "str").kv("in", inhex).kv("out", hx(p)).str());
	  if (n > 0) { std::string s; size_t used = PGP::PacketStringDecode(p, s); count("dec_PacketStringDecode"); ev("string-roundtrip");
	    if (used != p.size() || s != oct2str(data)) V("roundtrip/string", "PacketStringDecode(PacketStringEncode(s)) != s", J().kv("len", (long long)n).kv("used", (long long)used)); }
	  else count("obs_string_empty_not_judged"); }
	if (variant == 0 && n > 0) decode_direction(data, false);
}

static std::vector<size_t> byte_lengths() {
	std::set<size_t> s;
	for (size_t i = 0; i <= 200; i++) s.insert(i);
	for (size_t k = 1; k <= (ctx.quick() ? 12 : 40); k++) for (size_t b = 47; b <= 49; b++) for (int d = -1; d <= 1; d++) s.insert(b * k + d);
	for (size_t v : {185, 186, 187, 189, 190, 191, 192, 193, 194, 255, 256, 257, 505, 506, 507, 511, 512, 513, 1023, 1024, 1025, 4096, 8190}) s.insert(v);
	for (size_t v = 8374; v <= 8387; v++) s.insert(v);
	if (ctx.thorough()) { for (size_t i = 201; i <= 1200; i++) s.insert(i); for (size_t v = 16300; v <= 16330; v++) s.insert(v); }
	return std::vector<size_t>(s.begin(), s.end());
}

static void run_bytes(long &k) {
	std::vector<size_t> L = byte_lengths();
	size_t per = 6;
	for (size_t i = 0; i < L.size(); i += per) {
		size_t hi = std::min(L.size(), i + per);
		J d; d.kv("group", "bytes").kv("from", (long long)L[i]).kv("to", (long long)L[hi - 1]);
		if (!case_begin(k++, d.str())) continue;
		Rng r = case_rng(k, 1); tl_rng = &r; g_evals = 0; g_distinct.clear();
		for (size_t j = i; j < hi; j++) {
			size_t n = L[j];
			do_bytes(r, n, rnd(r, n), 0, false);
			if (n >= 1 && n <= 64) { do_bytes(r, n, Oct(n, 0x00), 1, false); do_bytes(r, n, Oct(n, 0xFF), 2, false); }
			count("byte_lengths");
		}
		{ Oct h = rnd(r, 20), p; PGP::PacketMdcEncode(h, p); count("enc_PacketMdcEncode"); record(J().kv("f", "mdc").kv("in", hx(h)).kv("out", hx(p)).str());
		  Dec dd(p); ev("pkt-roundtrip/mdc"); if (dd.ret != 19 || memcmp(dd.ctx.mdc_hash, h.data(), 20) || !dd.rest.empty()) V("roundtrip/mdc", "MDC packet not recovered", J().kv("ret", (int)dd.ret).kv("packet", hx(p))); }
		tl_rng = nullptr;
		case_end(d.str(), g_evals > 0, J().kv("group", "bytes").kv("lengths", std::to_string(L[i]) + ".." + std::to_string(L[hi - 1])).kv("oracle_evaluations", g_evals).str(), g_evals, (long long)g_distinct.size());
	}
	// big inputs: one case each
	std::vector<size_t> big = {65529, 65530, 65535, 65536, 65537, (size_t)1 << 20};
	if (ctx.thorough()) { big.push_back(((size_t)1 << 20) + 1); big.push_back(48 * 4000 - 1); big.push_back(48 * 4000); big.push_back(((size_t)1 << 22) + 17); }
	for (size_t n : big) {
		J d; d.kv("group", "bytes-big").kv("n", (long long)n);
		if (!case_begin(k++, d.str())) continue;
		Rng r = case_rng(k, 2); tl_rng = &r; g_evals = 0; g_distinct.clear();
		do_bytes(r, n, rnd(r, n), 0, true); count("byte_lengths_big");
		tl_rng = nullptr;
		case_end(d.str(), g_evals > 0, J().kv("group", "bytes-big").kv("n", (long long)n).kv("oracle_evaluations", g_evals).str(), g_evals, (long long)g_distinct.size());
	}
}

// ---------------------------------------------------------------- group B: integers, scalars, tags, lengths
static void do_mpi(gcry_mpi_t m, const std::string &how) {
	Oct out; size_t sum = 0; PGP::PacketMPIEncode(m, out, sum); count("enc_PacketMPIEncode");
	tmcg_openpgp_secure_octets_t sout; size_t ssum = 0; PGP::PacketMPIEncode(m, sout, ssum); count("enc_PacketMPIEncode_secure");
	record(J().kv("f", "mpi").kv("how", how).kv("v", mhex(m)).kv("out", hx(out)).kv("sum", (long long)sum).str());
	ev("mpi-overloads-agree");
	if (sout.size() != out.size() || !std::equal(out.begin(), out.end(), sout.begin()) || ssum != sum)
		V("mpi/secure-overload-differs", "PacketMPIEncode into secure octets differs from the plain overload", J().kv("v", shorten(mhex(m), 300)));
	if (gcry_mpi_get_nbits(m) > 65535) { count("obs_mpi_above_65535_bits"); return; }
	gcry_mpi_t back = gcry_mpi_new(8); size_t sum2 = 0; size_t used = PGP::PacketMPIDecode(out, back, sum2); count("dec_PacketMPIDecode"); ev("mpi-roundtrip/" + how);
	if (used != out.size() || !meq(back, m) || sum2 != sum)
		V("roundtrip/mpi", "PacketMPIDecode(PacketMPIEncode(v)) != v", J().kv("v", shorten(mhex(m), 300)).kv("octets", shorten(hx(out), 300)).kv("used", (long long)used).kv("got", shorten(mhex(back), 300)).kv("sum", (long long)sum).kv("sum2", (long long)sum2));
	gcry_mpi_release(back);
}

static void run_ints(long &k) {
	std::vector<size_t> ks;
	for (size_t i = 1; i <= 72; i++) ks.push_back(i);
	for (size_t v : {95, 96, 97, 127, 128, 129, 159, 160, 161, 255, 256, 257, 511, 512, 513, 1023, 1024, 1025, 2047, 2048, 2049, 3071, 3072, 4095, 4096, 4097, 8191, 8192, 16383, 16384, 32767, 32768, 65527, 65528, 65529, 65534, 65535}) ks.push_back(v);
	if (ctx.thorough()) for (size_t i = 73; i <= 1100; i++) ks.push_back(i);
	size_t per = 12;
	for (size_t i = 0; i < ks.size(); i += per) {
		size_t hi = std::min(ks.size(), i + per);
		J d; d.kv("group", "mpi").kv("bits_from", (long long)ks[i]).kv("bits_to", (long long)ks[hi - 1]);
		if (!case_begin(k++, d.str())) continue;
		Rng r = case_rng(k, 3); tl_rng = &r; g_evals = 0; g_distinct.clear();
		if (i == 0) { for (unsigned long v : {0UL, 1UL, 2UL, 3UL}) { gcry_mpi_t m = mpi_ui(v); do_mpi(m, "small"); gcry_mpi_release(m); } }
		for (size_t j = i; j < hi; j++) {
			size_t b = ks[j];
			gcry_mpi_t one = mpi_ui(1), p2 = gcry_mpi_new(b + 2), t = gcry_mpi_new(b + 2);
			gcry_mpi_mul_2exp(p2, one, b);                                  // 2^b (b+1 bits)
			gcry_mpi_sub_ui(t, p2, 1); do_mpi(t, "2^k-1");                  // b bits, all ones
			if (b + 1 <= 65535) { do_mpi(p2, "2^k"); gcry_mpi_add_ui(t, p2, 1); do_mpi(t, "2^k+1"); }
			else { do_mpi(p2, "2^65535 (too large for an MPI)"); }
			gcry_mpi_t rv = mpi_rand(r, b); do_mpi(rv, "random");
			// leading-zero input: the same magnitude scanned from a buffer with zero octets in front
			{ Oct raw; unsigned char *bb; size_t nn; gcry_mpi_aprint(GCRYMPI_FMT_USG, &bb, &nn, rv); for (size_t z = 0; z < 1 + (b % 5); z++) raw.push_back(0); raw.insert(raw.end(), bb, bb + nn); gcry_free(bb);
			  gcry_mpi_t lz = mpi_bytes(raw); do_mpi(lz, "leading-zero-input"); count("mpi_leading_zero_inputs");
			  // decode direction: non-normalised encodings (zero-padded magnitude, bit count rounded up to the octet)
			  if (b <= 4096) { Oct enc; size_t bits = raw.size() * 8; enc.push_back(bits >> 8); enc.push_back(bits); enc.insert(enc.end(), raw.begin(), raw.end()); enc.push_back(0xAA);
			    gcry_mpi_t got = gcry_mpi_new(8); size_t used = PGP::PacketMPIDecode(enc, got); count("dec_PacketMPIDecode_padded");
			    record(J().kv("f", "mpidec").kv("octets", hx(enc)).kv("used", (long long)used).kv("v", mhex(got)).str()); gcry_mpi_release(got); }
			  gcry_mpi_release(lz); }
			gcry_mpi_release(rv); gcry_mpi_release(one); gcry_mpi_release(p2); gcry_mpi_release(t);
			count("mpi_bit_lengths");
		}
		tl_rng = nullptr;
		case_end(d.str(), g_evals > 0, J().kv("group", "mpi").kv("bits", std::to_string(ks[i]) + ".." + std::to_string(ks[hi - 1])).kv("oracle_evaluations", g_evals).str(), g_evals, (long long)g_distinct.size());
	}
	// scalars, time, tags
	{
		J d; d.kv("group", "scalars-tags");
		if (case_begin(k++, d.str())) {
			g_evals = 0; g_distinct.clear();
			std::vector<unsigned long long> vs = {0, 1, 127, 128, 255, 256, 65535, 65536, 0xFFFFFFULL, 0x1000000ULL, 0x7FFFFFFFULL, 0x80000000ULL, 0xFFFFFFFEULL, 0xFFFFFFFFULL, 1600000000ULL};
			for (auto v : vs) { Oct o; PGP::PacketScalarFourEncode((size_t)v, o); count("enc_PacketScalarFourEncode"); record(J().kv("f", "scalar4").kv("v", v).kv("out", hx(o)).str());
				Oct t; PGP::PacketTimeEncode((time_t)v, t); count("enc_PacketTimeEncode"); record(J().kv("f", "time").kv("v", v).kv("out", hx(t)).str()); ev("scalar"); }
			vs.push_back(0x100000000ULL); vs.push_back(0x123456789ABCDEFULL); vs.push_back(0x8000000000000000ULL); vs.push_back(0xFFFFFFFFFFFFFFFFULL);
			for (auto v : vs) { Oct o; PGP::PacketScalarEightEncode(v, o); count("enc_PacketScalarEightEncode"); record(J().kv("f", "scalar8").kv("v", v).kv("out", hx(o)).str()); ev("scalar8"); }
			{ Oct t; PGP::PacketTimeEncode(t); record(J().kv("f", "time").kv("v", (long long)g_vtime).kv("out", hx(t)).kv("current", true).str()); }
			for (int tg = 0; tg < 64; tg++) { Oct o; PGP::PacketTagEncode(tg, o); count("enc_PacketTagEncode"); record(J().kv("f", "tag").kv("tag", tg).kv("out", hx(o)).str()); ev("tag"); }
			case_end(d.str(), true, J().kv("group", "scalars-tags").str(), g_evals, (long long)g_distinct.size());
		}
	}
	// all body lengths 0..N plus the large boundaries (header only, no body)
	{
		size_t N = ctx.quick() ? 9000 : 70000, per2 = 1500;
		std::vector<unsigned long long> extra = {65535, 65536, 0xFFFFFF, 0x1000000, 0x7FFFFFFF, 0x80000000ULL, 0xFFFFFFFEULL, 0xFFFFFFFFULL};
		for (size_t lo = 0; lo <= N; lo += per2) {
			J d; d.kv("group", "lengths").kv("from", (long long)lo);
			if (!case_begin(k++, d.str())) continue;
			g_evals = 0; g_distinct.clear();
			std::vector<unsigned long long> ns; for (size_t n = lo; n < lo + per2 && n <= N; n++) ns.push_back(n);
			if (lo == 0) ns.insert(ns.end(), extra.begin(), extra.end());
			std::vector<std::string> outs; std::vector<unsigned long long> okns;
			for (auto n : ns) {
				Oct l; PGP::PacketLengthEncode((size_t)n, l); count("enc_PacketLengthEncode"); outs.push_back(hx(l)); okns.push_back(n);
				uint32_t ln = 0; bool part = true; size_t used = PGP::PacketLengthDecode(l, true, 0, ln, part); count("dec_PacketLengthDecode"); ev(l.size() == 1 ? "len1" : l.size() == 2 ? "len2" : "len5");
				if (used != l.size() || ln != n || part) V("roundtrip/length", "PacketLengthDecode(PacketLengthEncode(n)) != n", J().kv("n", n).kv("octets", hx(l)).kv("len", (long long)ln).kv("used", (long long)used).kv("partial", part));
				// old-format decode of the same scalar (harness-framed)
				for (int lt = 0; lt < 3; lt++) { if ((lt == 0 && n > 255) || (lt == 1 && n > 65535)) continue;
					Oct o; if (lt == 0) o.push_back(n); else if (lt == 1) { o.push_back(n >> 8); o.push_back(n); } else { o.push_back(n >> 24); o.push_back(n >> 16); o.push_back(n >> 8); o.push_back(n); }
					uint32_t l2 = 0; bool p2 = true; size_t u2 = PGP::PacketLengthDecode(o, false, lt, l2, p2); ev("oldlen");
					if (u2 != o.size() || l2 != n || p2) V("decode/old-length", "old-format length not decoded", J().kv("n", n).kv("lentype", lt).kv("len", (long long)l2).kv("used", (long long)u2)); }
			}
			if (lo == 0) for (int e = 0; e <= 30; e++) { Oct o; o.push_back(224 + e); uint32_t l2 = 0; bool p2 = false; size_t u2 = PGP::PacketLengthDecode(o, true, 0, l2, p2); ev("partial-len"); count("dec_partial_length_octets");
				if (u2 != 1 || !p2 || l2 != ((uint32_t)1 << e)) V("decode/partial-length", "partial body length octet not decoded as 2^(octet & 0x1f)", J().kv("octet", 224 + e).kv("len", (long long)l2).kv("partial", p2)); }
			record(J().kv("f", "lens").arrn("ns", okns).arr("outs", outs).str());
			case_end(d.str(), true, J().kv("group", "lengths").kv("from", (long long)lo).kv("count", (long long)ns.size()).str(), g_evals, (long long)ns.size());
		}
	}
}

// ---------------------------------------------------------------- group C: S2K and ECDH KDF
static const int HASHES[9] = {1, 2, 3, 8, 9, 10, 11, 12, 14};
static void do_s2k(int h, size_t sklen, const std::string &pass, const Oct &salt, int mode, int c) {
	tmcg_openpgp_secure_string_t sp(pass.begin(), pass.end());
	tmcg_openpgp_secure_octets_t out;
	PGP::S2KCompute((tmcg_openpgp_hashalgo_t)h, sklen, sp, salt, mode == 3, (tmcg_openpgp_byte_t)c, out); count("enc_S2KCompute");
	count(mode == 3 ? "s2k_iterated" : mode == 1 ? "s2k_salted" : "s2k_simple"); ev("s2k/" + std::to_string(h) + "/" + std::to_string(mode));
	Oct o(out.begin(), out.end());
	record(J().kv("f", "s2k").kv("hash", h).kv("sklen", (long long)sklen).kv("pass", sx(pass)).kv("salt", hx(salt)).kv("mode", mode).kv("c", c).kv("out", hx(o)).str());
}

static std::vector<int> s2k_counts() {
	std::vector<int> v;
	if (ctx.quick()) v = {0x00, 0x01, 0x0F, 0x10, 0x11, 0x1F, 0x20, 0x3F, 0x5F, 0x60, 0x61, 0x7F, 0x80, 0x8F, 0x90, 0xAB, 0xAC, 0xAD, 0xBF, 0xC0, 0xCF, 0xD0, 0xE0, 0xFF};
	else for (int c = 0; c < 256; c++) v.push_back(c);
	return v;
}

static void run_s2k(long &k) {
	std::vector<int> cs = s2k_counts();
	size_t per = ctx.quick() ? 6 : 8;
	for (int hi = 0; hi < 9; hi++) for (size_t i = 0; i < cs.size(); i += per) {
		int h = HASHES[hi]; size_t top = std::min(cs.size(), i + per);
		J d; d.kv("group", "s2k").kv("hash", h).kv("c_from", cs[i]).kv("c_to", cs[top - 1]);
		if (!case_begin(k++, d.str())) continue;
		Rng r = case_rng(k, 4); tl_rng = &r; g_evals = 0; g_distinct.clear();
		static const size_t PL[10] = {1, 7, 8, 9, 31, 55, 56, 64, 119, 200};
		for (size_t j = i; j < top; j++) {
			int c = cs[j]; bool huge = (c >> 4) >= 12;      // >= 16 MiB per hash context
			std::vector<size_t> kls = {16, 24, 32};
			if (huge && (ctx.quick() || (c >> 4) >= 14)) kls = {32};
			if (!huge && ctx.thorough() && (c & 15) == 0) { kls.push_back(1); kls.push_back(20); kls.push_back(33); kls.push_back(64); kls.push_back(65); }
			for (size_t kl : kls) {
				size_t pl = PL[(j + kl) % 10]; std::string pass = oct2str(rnd(r, pl)); Oct salt = rnd(r, 8);
				do_s2k(h, kl, pass, salt, 3, c);
			}
			if ((c >> 4) == 0) {   // octet count below / equal / just above |salt|+|passphrase|: "the full salt plus passphrase will be hashed"
				size_t cnt = ((size_t)16 + (c & 15)) << 6;
				for (long dl : {-9L, -8L, -7L, 0L, 1L, 500L}) { size_t pl = cnt + dl; std::string pass = oct2str(rnd(r, pl)); do_s2k(h, 32, pass, rnd(r, 8), 3, c); count("s2k_count_vs_input_length_boundary"); }
			}
		}
		if (i == 0) {       // salted and simple mode do not depend on the count
			for (size_t kl : {(size_t)16, (size_t)24, (size_t)32, (size_t)1, (size_t)40, (size_t)64, (size_t)100})
				for (size_t pl : {(size_t)0, (size_t)1, (size_t)8, (size_t)64, (size_t)200}) {
					std::string pass = oct2str(rnd(r, pl));
					do_s2k(h, kl, pass, rnd(r, 8), 1, 0x60);
					if (pl > 0) do_s2k(h, kl, pass, Oct(), 0, 0x60);    // simple S2K: the library's own caller passes an empty salt (PrivateKeyBlockParse_Decrypt)
				}
		}
		tl_rng = nullptr;
		case_end(d.str(), g_evals > 0, J().kv("group", "s2k").kv("hash", h).kv("counts", std::to_string(cs[i]) + ".." + std::to_string(cs[top - 1])).kv("evaluations", g_evals).str(), g_evals, (long long)g_distinct.size());
	}
	// ECDH KDF (RFC 6637 section 7)
	const char *curves[7] = {"NIST P-256", "NIST P-384", "NIST P-521", "brainpoolP256r1", "brainpoolP512r1", "Ed25519", "Curve25519"};
	for (int ci = 0; ci < 7; ci++) {
		J d; d.kv("group", "kdf").kv("curve", curves[ci]);
		if (!case_begin(k++, d.str())) continue;
		Rng r = case_rng(k, 5); tl_rng = &r; g_evals = 0; g_distinct.clear();
		for (int h : {8, 9, 10}) for (int sk : {7, 8, 9}) for (size_t zl : {(size_t)32, (size_t)48, (size_t)66}) for (size_t fl : {(size_t)20, (size_t)32}) {
			Oct z = rnd(r, zl), fpr = rnd(r, fl); tmcg_openpgp_secure_octets_t ZB(z.begin(), z.end()), MB;
			gcry_error_t e = PGP::KDFCompute((tmcg_openpgp_hashalgo_t)h, (tmcg_openpgp_skalgo_t)sk, ZB, curves[ci], fpr, MB); count("enc_KDFCompute"); ev("kdf");
			Oct mb(MB.begin(), MB.end());
			record(J().kv("f", "kdf").kv("hash", h).kv("skalgo", sk).kv("zb", hx(z)).kv("curve", curves[ci]).kv("fpr", hx(fpr)).kv("err", (long long)e).kv("out", hx(mb)).str());
		}
		tl_rng = nullptr;
		case_end(d.str(), true, J().kv("group", "kdf").kv("curve", curves[ci]).str(), g_evals, 54);
	}
}

// ---------------------------------------------------------------- group D: key packets, fingerprints, key blocks
static gcry_sexp_t genkey(const std::string &spec) {
	gcry_sexp_t parms = nullptr, key = nullptr; size_t eo = 0;
	if (gcry_sexp_build(&parms, &eo, spec.c_str())) return nullptr;
	gcry_error_t e = gcry_pk_genkey(&key, parms); gcry_sexp_release(parms);
	return e ? nullptr : key;
}
static gcry_mpi_t kp(gcry_sexp_t key, const char *name) { gcry_mpi_t m = nullptr; if (gcry_sexp_extract_param(key, nullptr, name, &m, nullptr)) return nullptr; return m; }

static Oct body_of(const Oct &pkt, const char *what) {
	Oct b; tmcg_openpgp_byte_t t = PGP::PacketBodyExtract(pkt, 0, b); count("dec_PacketBodyExtract");
	if (!t) V("roundtrip/body-extract", "PacketBodyExtract refused an emitted packet", J().kv("what", what).kv("packet", shorten(hx(pkt), 400)));
	record(J().kv("f", "bodyextract").kv("octets", hx(pkt)).kv("tag", (int)t).kv("body", hx(b)).str());
	return b;
}
static void do_fpr(const Oct &body, int version) {
	Oct f, kid;
	if (version == 4) { PGP::FingerprintCompute(body, f); PGP::KeyidCompute(body, kid); count("enc_FingerprintCompute"); count("enc_KeyidCompute"); }
	else { PGP::FingerprintComputeV5(body, f); PGP::KeyidComputeV5(body, kid); count("enc_FingerprintComputeV5"); count("enc_KeyidComputeV5"); }
	std::string plain, pretty, kc; PGP::FingerprintConvertPlain(f, plain); PGP::FingerprintConvertPretty(f, pretty); PGP::KeyidConvert(kid, kc);
	record(J().kv("f", "fpr").kv("v", version).kv("body", hx(body)).kv("fpr", hx(f)).kv("keyid", hx(kid)).kv("plain", plain).kv("pretty", pretty).kv("keyid_txt", kc).str()); ev("fpr");
}

struct PubParams { int algo; std::vector<gcry_mpi_t> m; /* RSA: n,e ; ELG: p,g,y ; DSA: p,q,g,y */ Oct oid; gcry_mpi_t point = nullptr; int kdf_h = 0, kdf_s = 0; };

// encode one public (sub)key packet through the library, record, decode, compare
static Oct enc_pub(const PubParams &P, int tag, int version, time_t created) {
	Oct out; gcry_mpi_t z = mpi_ui(0);
	gcry_mpi_t p = z, q = z, g = z, y = z;
	bool ec = (P.algo == 18 || P.algo == 19 || P.algo == 22);
	if (P.algo >= 1 && P.algo <= 3) { p = P.m[0]; q = P.m[1]; } else if (P.algo == 16) { p = P.m[0]; g = P.m[1]; y = P.m[2]; } else if (P.algo == 17) { p = P.m[0]; q = P.m[1]; g = P.m[2]; y = P.m[3]; }
	tmcg_openpgp_pkalgo_t a = (tmcg_openpgp_pkalgo_t)P.algo;
	if (!ec) {
		if (tag == 6 && version == 4) { PGP::PacketPubEncode(created, a, p, q, g, y, out); count("enc_PacketPubEncode"); }
		if (tag == 6 && version == 5) { PGP::PacketPubEncodeV5(created, a, p, q, g, y, out); count("enc_PacketPubEncodeV5"); }
		if (tag == 14 && version == 4) { PGP::PacketSubEncode(created, a, p, q, g, y, out); count("enc_PacketSubEncode"); }
		if (tag == 14 && version == 5) { PGP::PacketSubEncodeV5(created, a, p, q, g, y, out); count("enc_PacketSubEncodeV5"); }
	} else {
		tmcg_openpgp_hashalgo_t kh = (tmcg_openpgp_hashalgo_t)P.kdf_h; tmcg_openpgp_skalgo_t ks = (tmcg_openpgp_skalgo_t)P.kdf_s;
		if (tag == 6 && version == 4) { PGP::PacketPubEncode(created, a, P.oid.size(), P.oid.data(), P.point, kh, ks, out); count("enc_PacketPubEncode_ec"); }
		if (tag == 6 && version == 5) { PGP::PacketPubEncodeV5(created, a, P.oid.size(), P.oid.data(), P.point, kh, ks, out); count("enc_PacketPubEncodeV5_ec"); }
		if (tag == 14 && version == 4) { PGP::PacketSubEncode(created, a, P.oid.size(), P.oid.data(), P.point, kh, ks, out); count("enc_PacketSubEncode_ec"); }
		if (tag == 14 && version == 5) { PGP::PacketSubEncodeV5(created, a, P.oid.size(), P.oid.data(), P.point, kh, ks, out); count("enc_PacketSubEncodeV5_ec"); }
	}
	gcry_mpi_release(z);
	J j; j.kv("f", "pubkey").kv("tag", tag).kv("version", version).kv("created", (long long)created).kv("algo", P.algo);
	if (ec) j.kv("oid", hx(P.oid)).kv("point", mhex(P.point)).kv("kdf_h", P.kdf_h).kv("kdf_s", P.kdf_s); else j.arr("mpis", mhexv(P.m));
	j.kv("out", hx(out)); record(j.str());
	count("pk_algo_" + std::to_string(P.algo) + "_v" + std::to_string(version));
	// round trip
	Dec d(out); ev("pkt-roundtrip/key/" + std::to_string(tag) + "/" + std::to_string(P.algo) + "/v" + std::to_string(version));
	J w; w.kv("tag", tag).kv("version", version).kv("algo", P.algo).kv("ret", (int)d.ret).kv("packet", shorten(hx(out), 600));
	bool ok = d.ret == tag && d.ctx.version == version && d.ctx.keycreationtime == (uint32_t)created && (int)d.ctx.pkalgo == P.algo && d.rest.empty() && d.ctx.newformat;
	if (ok) {
		if (P.algo >= 1 && P.algo <= 3) ok = meq(d.ctx.n, P.m[0]) && meq(d.ctx.e, P.m[1]);
		else if (P.algo == 16) ok = meq(d.ctx.p, P.m[0]) && meq(d.ctx.g, P.m[1]) && meq(d.ctx.y, P.m[2]);
		else if (P.algo == 17) ok = meq(d.ctx.p, P.m[0]) && meq(d.ctx.q, P.m[1]) && meq(d.ctx.g, P.m[2]) && meq(d.ctx.y, P.m[3]);
		else ok = d.ctx.curveoidlen == P.oid.size() && !memcmp(d.ctx.curveoid, P.oid.data(), P.oid.size()) && meq(d.ctx.ecpk, P.point) && (P.algo != 18 || ((int)d.ctx.kdf_hashalgo == P.kdf_h && (int)d.ctx.kdf_skalgo == P.kdf_s));
	}
	if (!ok) V("roundtrip/public-key", "PacketDecode does not recover the fields of an emitted public (sub)key packet", w);
	Oct body = body_of(out, "public key"); do_fpr(body, version);
	return out;
}

// DSA / Elgamal secret (sub)key packets, with and without passphrase
static Oct enc_sec(const PubParams &P, gcry_mpi_t x, int tag, time_t created, const std::string &pass) {
	Oct out; gcry_mpi_t z = mpi_ui(0); gcry_mpi_t p = z, q = z, g = z, y = z;
	if (P.algo == 16) { p = P.m[0]; g = P.m[1]; y = P.m[2]; } else if (P.algo == 17) { p = P.m[0]; q = P.m[1]; g = P.m[2]; y = P.m[3]; } else if (P.algo <= 3) { p = P.m[0]; q = P.m[1]; }
	tmcg_openpgp_secure_string_t sp(pass.begin(), pass.end());
	if (tag == 5) { PGP::PacketSecEncode(created, (tmcg_openpgp_pkalgo_t)P.algo, p, q, g, y, x, sp, out); count("enc_PacketSecEncode"); }
	else { PGP::PacketSsbEncode(created, (tmcg_openpgp_pkalgo_t)P.algo, p, q, g, y, x, sp, out); count("enc_PacketSsbEncode"); }
	gcry_mpi_release(z);
	record(J().kv("f", "seckey").kv("tag", tag).kv("created", (long long)created).kv("algo", P.algo).arr("mpis", mhexv(P.m)).kv("x", mhex(x)).kv("pass", sx(pass)).kv("out", hx(out)).str());
	if (P.algo != 16 && P.algo != 17) { if (!out.empty()) count("obs_secret_rsa_encoded"); else count("obs_secret_encoder_unsupported_algo"); return out; }
	count(pass.empty() ? "seckey_plain" : "seckey_protected");
	Dec d(out); ev(std::string("pkt-roundtrip/seckey/") + (pass.empty() ? "plain" : "protected") + "/" + std::to_string(P.algo));
	J w; w.kv("tag", tag).kv("algo", P.algo).kv("protected", !pass.empty()).kv("ret", (int)d.ret).kv("packet", shorten(hx(out), 800));
	bool ok = d.ret == tag && d.ctx.version == 4 && (int)d.ctx.pkalgo == P.algo && d.ctx.keycreationtime == (uint32_t)created && d.rest.empty();
	if (ok && P.algo == 16) ok = meq(d.ctx.p, P.m[0]) && meq(d.ctx.g, P.m[1]) && meq(d.ctx.y, P.m[2]);
	if (ok && P.algo == 17) ok = meq(d.ctx.p, P.m[0]) && meq(d.ctx.q, P.m[1]) && meq(d.ctx.g, P.m[2]) && meq(d.ctx.y, P.m[3]);
	if (ok && pass.empty()) ok = d.ctx.s2kconv == 0 && meq(d.ctx.x, x);
	if (ok && !pass.empty()) {
		ok = d.ctx.s2kconv == 254 && d.ctx.encdatalen > 0;
		if (ok) { bool dec = PGP::PrivateKeyBlockParse_Decrypt(d.ctx, 0, sp); count("dec_PrivateKeyBlockParse_Decrypt"); ok = dec && meq(d.ctx.x, x); w.kv("decrypt", dec); }
		// a wrong passphrase must not yield the secret
		if (ok) { Dec d2(out); tmcg_openpgp_secure_string_t bad = sp; bad[0] ^= 1; bool dec2 = PGP::PrivateKeyBlockParse_Decrypt(d2.ctx, 0, bad); ev("seckey-wrong-passphrase");
			if (dec2 && meq(d2.ctx.x, x)) V("seckey/wrong-passphrase-decrypts", "secret key material recovered with a different passphrase", w); }
	}
	if (!ok) V("roundtrip/secret-key", "PacketDecode (+passphrase) does not recover the fields of an emitted secret (sub)key packet", w);
	return out;
}

static Oct uid_pkt(const std::string &u) { Oct o; PGP::PacketUidEncode(u, o); count("enc_PacketUidEncode"); record(J().kv("f", "uid").kv("in", sx(u)).kv("out", hx(o)).str()); return o; }

// signature packet over a prepared hashed part; records, decodes, compares the generic fields
static Oct enc_sig(const Oct &hashed, const Oct &left, int pkalgo, gcry_mpi_t r, gcry_mpi_t s) {
	Oct out;
	if (pkalgo == 1 || pkalgo == 3) { PGP::PacketSigEncode(hashed, left, s, out); count("enc_PacketSigEncode_1mpi"); }
	else { PGP::PacketSigEncode(hashed, left, r, s, out); count("enc_PacketSigEncode_2mpi"); }
	J j; j.kv("f", "sig").kv("hashed", hx(hashed)).kv("left", hx(left)).kv("pkalgo", pkalgo);
	if (pkalgo == 1 || pkalgo == 3) j.arr("mpis", {mhex(s)}); else j.arr("mpis", {mhex(r), mhex(s)});
	j.kv("out", hx(out)); record(j.str());
	return out;
}

struct KeyMat {   // generated key of one algorithm
	gcry_sexp_t sexp = nullptr; PubParams P; gcry_mpi_t x = nullptr; std::string curve;
	~KeyMat() { if (sexp) gcry_sexp_release(sexp); for (auto m : P.m) gcry_mpi_release(m); if (P.point) gcry_mpi_release(P.point); if (x) gcry_mpi_release(x); }
};
static Oct oid_of(const std::string &curve) {
	for (size_t i = 0; tmcg_openpgp_oidtable[i].name; i++) if (curve == tmcg_openpgp_oidtable[i].name) { const tmcg_openpgp_byte_t *o = tmcg_openpgp_oidtable[i].oid; return Oct(o + 1, o + 1 + o[0]); }
	return Oct();
}
static bool make_key(KeyMat &K, const std::string &kind, size_t bits, const std::string &curve) {
	K.curve = curve;
	if (kind == "rsa") { K.sexp = genkey("(genkey (rsa (nbits " + std::to_string(std::to_string(bits).size()) + ":" + std::to_string(bits) + ")))"); if (!K.sexp) return false; K.P.algo = 1; K.P.m = {kp(K.sexp, "n"), kp(K.sexp, "e")}; }
	else if (kind == "dsa") { size_t qb = bits >= 2048 ? 256 : 160; K.sexp = genkey("(genkey (dsa (nbits " + std::to_string(std::to_string(bits).size()) + ":" + std::to_string(bits) + ")(qbits 3:" + std::to_string(qb) + ")))"); if (!K.sexp) return false; K.P.algo = 17; K.P.m = {kp(K.sexp, "p"), kp(K.sexp, "q"), kp(K.sexp, "g"), kp(K.sexp, "y")}; K.x = kp(K.sexp, "x"); }
	else if (kind == "elg") { K.sexp = genkey("(genkey (elg (nbits " + std::to_string(std::to_string(bits).size()) + ":" + std::to_string(bits) + ")))"); if (!K.sexp) return false; K.P.algo = 16; K.P.m = {kp(K.sexp, "p"), kp(K.sexp, "g"), kp(K.sexp, "y")}; K.x = kp(K.sexp, "x"); }
	else {
		std::string flags = curve == "Ed25519" ? "(flags eddsa)" : curve == "Curve25519" ? "(flags djb-tweak)" : "";
		K.sexp = genkey("(genkey (ecc (curve \"" + curve + "\")" + flags + "))"); if (!K.sexp) return false;
		K.P.algo = kind == "ecdsa" ? 19 : kind == "eddsa" ? 22 : 18; K.P.oid = oid_of(curve); K.P.point = kp(K.sexp, "q");
		if (K.P.algo == 18) { bool big = curve.find("521") != curve.npos || curve.find("512") != curve.npos, mid = curve.find("384") != curve.npos; K.P.kdf_h = big ? 10 : mid ? 9 : 8; K.P.kdf_s = big ? 9 : mid ? 8 : 7; }
		if (!K.P.point || K.P.oid.empty()) return false;
		if (curve == "Ed25519" && gcry_mpi_get_nbits(K.P.point) <= 256) {   // libgcrypt returns the bare 32-octet point; OpenPGP prefixes it with 0x40
			unsigned char buf[32]; size_t nn = 0; memset(buf, 0, 32); Oct pt; pt.push_back(0x40);
			unsigned char *bb; gcry_mpi_aprint(GCRYMPI_FMT_USG, &bb, &nn, K.P.point); for (size_t i = 0; i < 32 - nn; i++) pt.push_back(0); pt.insert(pt.end(), bb, bb + nn); gcry_free(bb); (void)buf;
			gcry_mpi_release(K.P.point); K.P.point = mpi_bytes(pt);
		}
	}
	for (auto m : K.P.m) if (!m) return false;
	return true;
}

// hash + sign with the library's own primitives (needed so that gpg --import can check the self-signatures)
static bool sign_hash(KeyMat &K, const Oct &hash, int hashalgo, gcry_mpi_t &r, gcry_mpi_t &s) {
	gcry_error_t e;
	if (K.P.algo == 1) e = PGP::AsymmetricSignRSA(hash, K.sexp, (tmcg_openpgp_hashalgo_t)hashalgo, s);
	else if (K.P.algo == 17) e = PGP::AsymmetricSignDSA(hash, K.sexp, r, s);
	else if (K.P.algo == 19) e = PGP::AsymmetricSignECDSA(hash, K.sexp, r, s);
	else if (K.P.algo == 22) e = PGP::AsymmetricSignEdDSA(hash, K.sexp, r, s);
	else return false;
	return !e;
}
static int hash_for(const KeyMat &K) {
	if (K.P.algo == 19 || K.P.algo == 22) { if (K.curve.find("384") != K.curve.npos) return 9; if (K.curve.find("521") != K.curve.npos || K.curve.find("512") != K.curve.npos) return 10; }
	return 8;
}

// a complete transferable public key: primary, user id, positive certification, subkey, subkey binding
static void key_block(KeyMat &prim, KeyMat &sub, const std::string &label, Rng &r) {
	time_t created = (time_t)g_vtime - 86400 * (1 + (long)r.below(2000));
	Oct pub = enc_pub(prim.P, 6, 4, created), subp = enc_pub(sub.P, 14, 4, created + 5);
	Oct pub_body = body_of(pub, "primary"), sub_body = body_of(subp, "subkey"), fpr; PGP::FingerprintCompute(pub_body, fpr);
	std::string name = "C19 " + label + " <c19@example.org>"; Oct uid = uid_pkt(name);
	int h = hash_for(prim);
	Oct flags1 = {0x03}, flags2 = {0x0C}, hp1, hp2, hash, left, empty;
	PGP::PacketSigPrepareSelfSignature(TMCG_OPENPGP_SIGNATURE_POSITIVE_CERTIFICATION, (tmcg_openpgp_pkalgo_t)prim.P.algo, (tmcg_openpgp_hashalgo_t)h, (time_t)g_vtime, 0, flags1, fpr, false, hp1); count("enc_PacketSigPrepareSelfSignature");
	PGP::CertificationHash(pub_body, name, empty, hp1, (tmcg_openpgp_hashalgo_t)h, hash, left);
	gcry_mpi_t rr = gcry_mpi_new(8), ss = gcry_mpi_new(8);
	if (!sign_hash(prim, hash, h, rr, ss)) { count("obs_sign_failed"); gcry_mpi_release(rr); gcry_mpi_release(ss); return; }
	Oct sig1 = enc_sig(hp1, left, prim.P.algo, rr, ss);
	hash.clear(); left.clear();
	PGP::PacketSigPrepareSelfSignature(TMCG_OPENPGP_SIGNATURE_SUBKEY_BINDING, (tmcg_openpgp_pkalgo_t)prim.P.algo, (tmcg_openpgp_hashalgo_t)h, (time_t)g_vtime, 86400 * 3650, flags2, fpr, false, hp2); count("enc_PacketSigPrepareSelfSignature");
	PGP::KeyHash(pub_body, sub_body, hp2, (tmcg_openpgp_hashalgo_t)h, hash, left);
	if (!sign_hash(prim, hash, h, rr, ss)) { count("obs_sign_failed"); gcry_mpi_release(rr); gcry_mpi_release(ss); return; }
	Oct sig2 = enc_sig(hp2, left, prim.P.algo, rr, ss);
	gcry_mpi_release(rr); gcry_mpi_release(ss);
	Oct all; for (const Oct *o : {&pub, &uid, &sig1, &subp, &sig2}) all.insert(all.end(), o->begin(), o->end());
	std::string armor; PGP::ArmorEncode(TMCG_OPENPGP_ARMOR_PUBLIC_KEY_BLOCK, all, armor); count("enc_ArmorEncode");
	record(J().kv("f", "armor").kv("type", 6).kv("comment", "").kv("version", false).kv("verstr", std::string(VERSION)).kv("in", hx(all)).kv("out_txt", armor).str());
	Oct sfpr; PGP::FingerprintCompute(sub_body, sfpr);
	gpg_case("import", label, str2oct(armor), J().kv("fpr", hx(fpr)).kv("subfpr", hx(sfpr)).kv("uid", name).str());
	gpg_case("list", label + "-block", all);
	// the library's own parser must accept the block and report the same fingerprint
	TMCG_OpenPGP_Pubkey *pk = nullptr; bool ok = PGP::PublicKeyBlockParse(armor, 0, pk); count("dec_PublicKeyBlockParse"); ev("keyblock-roundtrip");
	if (!ok) V("roundtrip/key-block-parse", "PublicKeyBlockParse refused an emitted key block", J().kv("label", label).kv("armor", shorten(armor, 1500)));
	else { if (pk->fingerprint != fpr || pk->subkeys.size() != 1 || pk->userids.size() != 1) V("roundtrip/key-block-fields", "parsed key block differs (fingerprint / subkeys / user ids)", J().kv("label", label)); delete pk; }
}

static void run_keys(long &k) {
	struct Cfg { const char *kind; size_t bits; const char *curve; const char *skind; size_t sbits; const char *scurve; bool thorough_only; };
	std::vector<Cfg> cfgs = {
		{"rsa", 1024, "", "rsa", 1024, "", false}, {"rsa", 1536, "", "rsa", 1280, "", false}, {"rsa", 2048, "", "elg", 1024, "", false},
		{"dsa", 1024, "", "elg", 1024, "", false}, {"dsa", 2048, "", "elg", 1536, "", false}, {"dsa", 1024, "", "rsa", 1024, "", false},
		{"ecdsa", 0, "NIST P-256", "ecdh", 0, "NIST P-256", false}, {"ecdsa", 0, "NIST P-384", "ecdh", 0, "NIST P-384", false}, {"ecdsa", 0, "NIST P-521", "ecdh", 0, "NIST P-521", false},
		{"ecdsa", 0, "brainpoolP256r1", "ecdh", 0, "brainpoolP256r1", false}, {"ecdsa", 0, "brainpoolP512r1", "ecdh", 0, "brainpoolP512r1", false},
		{"eddsa", 0, "Ed25519", "ecdh", 0, "Curve25519", false}, {"eddsa", 0, "Ed25519", "elg", 1024, "", false}, {"rsa", 1024, "", "ecdh", 0, "Curve25519", false},
		{"dsa", 3072, "", "elg", 2048, "", true}, {"rsa", 3072, "", "rsa", 4096, "", true}, {"dsa", 1024, "", "elg", 1024, "", true}, {"rsa", 2048, "", "rsa", 2048, "", true},
	};
	int idx = 0;
	for (auto &c : cfgs) {
		idx++;
		if (c.thorough_only && ctx.quick()) continue;
		std::string label = std::string(c.kind) + (c.bits ? std::to_string(c.bits) : std::string("-") + c.curve) + "+" + c.skind + (c.sbits ? std::to_string(c.sbits) : std::string("-") + c.scurve);
		for (auto &ch : label) if (ch == ' ') ch = '_';
		J d; d.kv("group", "keys").kv("cfg", label).kv("i", idx);
		if (!case_begin(k++, d.str())) continue;
		Rng r = case_rng(k, 6); tl_rng = &r; g_evals = 0; g_distinct.clear();
		KeyMat A, B;
		if (!make_key(A, c.kind, c.bits, c.curve) || !make_key(B, c.skind, c.sbits, c.scurve)) { count("obs_keygen_unavailable"); tl_rng = nullptr; case_end(d.str(), false, "", 0, 0); continue; }
		key_block(A, B, label, r);
		// every public encoder form of both keys: v4/v5, primary/subkey (RSA also with the encrypt-only / sign-only ids)
		time_t created = (time_t)g_vtime - (long)r.below(100000000);
		Oct seq;
		for (KeyMat *K : {&A, &B}) for (int tag : {6, 14}) for (int v : {4, 5}) {
			std::vector<int> algos = {K->P.algo}; if (K->P.algo == 1) { algos.push_back(2); algos.push_back(3); }
			for (int a : algos) { PubParams P = K->P; P.algo = a; Oct o = enc_pub(P, tag, v, created); if (v == 4) seq.insert(seq.end(), o.begin(), o.end()); }
		}
		gpg_case("list", label + "-pubforms", seq);
		// secret key packets
		for (KeyMat *K : {&A, &B}) {
			if (K->P.algo == 16 || K->P.algo == 17) {
				std::string pass; size_t pl = 1 + r.below(24); for (size_t i = 0; i < pl; i++) pass += (char)(0x21 + r.below(0x5e));
				Oct s1 = enc_sec(K->P, K->x, 5, created, ""), s2 = enc_sec(K->P, K->x, 7, created, ""), s3 = enc_sec(K->P, K->x, 5, created, pass), s4 = enc_sec(K->P, K->x, 7, created, pass);
				Oct sq; for (const Oct *o : {&s1, &s2, &s3, &s4}) sq.insert(sq.end(), o->begin(), o->end());
				gpg_case("list", label + "-secret-" + std::to_string(K->P.algo), sq, J().kv("pass", sx(pass)).str());
			} else if (K->P.algo == 1) { gcry_mpi_t dd = kp(K->sexp, "d"); enc_sec(K->P, dd, 5, created, ""); gcry_mpi_release(dd); }
		}
		tl_rng = nullptr;
		case_end(d.str(), g_evals > 0, J().kv("group", "keys").kv("cfg", label).kv("oracle_evaluations", g_evals).str(), g_evals, (long long)g_distinct.size());
	}
}

// ---------------------------------------------------------------- group E: LibTMCG's experimental threshold key packets (algorithms 107/108/109)
static void run_experimental(long &k) {
	for (int variant = 0; variant < 3; variant++) for (int prot = 0; prot < 2; prot++) {
		int algo = variant == 0 ? 107 : variant == 1 ? 108 : 109;
		J d; d.kv("group", "experimental").kv("algo", algo).kv("protected", prot != 0);
		if (!case_begin(k++, d.str())) continue;
		Rng r = case_rng(k, 7); tl_rng = &r; g_evals = 0; g_distinct.clear();
		size_t n = 3 + r.below(3), t = 1 + r.below(2), idx = r.below(n);
		gcry_mpi_t p = mpi_rand(r, 1024), q = mpi_rand(r, 160), g = mpi_rand(r, 1023), h = mpi_rand(r, 1022), y = mpi_rand(r, 1021);
		gcry_mpi_t mn = mpi_ui(n), mt = mpi_ui(t), mi = mpi_ui(idx), x_i = mpi_rand(r, 159), xp_i = mpi_rand(r, 158);
		std::vector<gcry_mpi_t> qual, xq, v_i; std::vector<std::string> capl; std::vector<std::vector<gcry_mpi_t> > c_ik(n);
		size_t qs = (algo == 108) ? n : n - 1;       // 108 stores one CAPL entry per QUAL member
		for (size_t i = 0; i < qs; i++) qual.push_back(mpi_ui(i));
		for (size_t i = 0; i + 1 < n; i++) xq.push_back(mpi_ui(i + 1));
		size_t ncapl = (algo == 108) ? qs : n;
		for (size_t i = 0; i < ncapl; i++) { std::string s; size_t l = 1 + r.below(i == 0 ? 300 : 40); for (size_t j = 0; j < l; j++) s += (char)(0x21 + r.below(0x5e)); capl.push_back(s); }
		for (size_t i = 0; i < n; i++) { v_i.push_back(mpi_rand(r, 1000 + r.below(24))); for (size_t j = 0; j <= t; j++) c_ik[i].push_back(mpi_rand(r, 1000 + r.below(24))); }
		gcry_mpi_t mqs = mpi_ui(qual.size()), mxqs = mpi_ui(xq.size());
		std::string pass; if (prot) { size_t pl = 1 + r.below(20); for (size_t i = 0; i < pl; i++) pass += (char)(0x21 + r.below(0x5e)); }
		tmcg_openpgp_secure_string_t sp(pass.begin(), pass.end());
		time_t created = (time_t)g_vtime - 12345; Oct out;
		if (algo == 107) { PGP::PacketSecEncodeExperimental107(created, p, q, g, h, y, mn, mt, mi, mqs, qual, mxqs, xq, capl, c_ik, x_i, xp_i, sp, out); count("enc_PacketSecEncodeExperimental107"); }
		if (algo == 108) { PGP::PacketSecEncodeExperimental108(created, p, q, g, h, y, mn, mt, mi, mqs, qual, capl, c_ik, x_i, xp_i, sp, out); count("enc_PacketSecEncodeExperimental108"); }
		if (algo == 109) { PGP::PacketSsbEncodeExperimental109(created, p, q, g, h, y, mn, mt, mi, mqs, qual, v_i, c_ik, x_i, xp_i, sp, out); count("enc_PacketSsbEncodeExperimental109"); }
		std::vector<std::string> cik; for (auto &row : c_ik) for (auto m : row) cik.push_back(mhex(m));
		std::vector<std::string> caplhex; for (auto &s : capl) caplhex.push_back(sx(s));
		record(J().kv("f", "expkey").kv("algo", algo).kv("created", (long long)created).arr("head", {mhex(p), mhex(q), mhex(g), mhex(h), mhex(y), mhex(mn), mhex(mt), mhex(mi)})
		       .arr("qual", mhexv(qual)).arr("xqual", mhexv(xq)).arr("capl", caplhex).arr("v_i", mhexv(v_i)).arr("c_ik", cik).kv("x_i", mhex(x_i)).kv("xprime_i", mhex(xp_i)).kv("pass", sx(pass)).kv("out", hx(out)).str());
		{ Dec dd(out); ev("pkt-roundtrip/experimental/" + std::to_string(algo) + (prot ? "/protected" : "/plain"));
		  int tag = algo == 109 ? 7 : 5; bool ok = dd.ret == tag && (int)dd.ctx.pkalgo == algo && dd.ctx.keycreationtime == (uint32_t)created && dd.rest.empty();
		  ok = ok && meq(dd.ctx.p, p) && meq(dd.ctx.q, q) && meq(dd.ctx.g, g) && meq(dd.ctx.h, h) && meq(dd.ctx.y, y) && meq(dd.ctx.n, mn) && meq(dd.ctx.t, mt) && meq(dd.ctx.i, mi);
		  ok = ok && dd.qual.size() == qual.size() && dd.c_ik.size() == n;
		  if (ok) for (size_t i = 0; i < qual.size(); i++) ok = ok && meq(dd.qual[i], qual[i]);
		  if (ok) for (size_t i = 0; i < n; i++) for (size_t j = 0; j <= t; j++) ok = ok && dd.c_ik[i].size() == t + 1 && meq(dd.c_ik[i][j], c_ik[i][j]);
		  if (ok && algo != 109) ok = dd.capl == capl;
		  if (ok && algo == 109) { ok = dd.v_i.size() == n; for (size_t i = 0; ok && i < n; i++) ok = meq(dd.v_i[i], v_i[i]); }
		  if (ok && algo == 107) { ok = dd.xq.size() == xq.size(); for (size_t i = 0; ok && i < xq.size(); i++) ok = meq(dd.xq[i], xq[i]); }
		  if (ok && !prot) ok = dd.ctx.s2kconv == 0 && meq(dd.ctx.x_i, x_i) && meq(dd.ctx.xprime_i, xp_i);
		  if (ok && prot) { ok = dd.ctx.s2kconv == 254 && PGP::PrivateKeyBlockParse_Decrypt(dd.ctx, 0, sp) && meq(dd.ctx.x_i, x_i) && meq(dd.ctx.xprime_i, xp_i); }
		  if (!ok) V("roundtrip/experimental-key", "PacketDecode does not recover an emitted threshold key packet", J().kv("algo", algo).kv("protected", prot != 0).kv("ret", (int)dd.ret).kv("packet", shorten(hx(out), 800))); }
		for (auto m : {p, q, g, h, y, mn, mt, mi, x_i, xp_i, mqs, mxqs}) gcry_mpi_release(m);
		for (auto m : qual) gcry_mpi_release(m); for (auto m : xq) gcry_mpi_release(m); for (auto m : v_i) gcry_mpi_release(m); for (auto &row : c_ik) for (auto m : row) gcry_mpi_release(m);
		tl_rng = nullptr;
		case_end(d.str(), g_evals > 0, J().kv("group", "experimental").kv("algo", algo).kv("protected", prot != 0).kv("n", (long long)n).kv("t", (long long)t).str(), g_evals, (long long)g_distinct.size());
	}
}

// ---------------------------------------------------------------- group F: signature packets
struct SigArgs { std::string fn; int type = 0, pkalgo = 17, hashalgo = 8; long long sigtime = 0, exptime = 0; Oct flags, issuer, revoker, target_hash, embedded, attested; std::string policy, reason; int revcode = 0, pkalgo2 = 0, target_pk = 0, target_h = 0; bool bis = false; tmcg_openpgp_notations_t notations; };
static std::string sigargs_json(const SigArgs &a) {
	J j; j.kv("fn", a.fn).kv("type", a.type).kv("pkalgo", a.pkalgo).kv("hashalgo", a.hashalgo).kv("sigtime", a.sigtime).kv("exptime", a.exptime).kv("flags", hx(a.flags)).kv("issuer", hx(a.issuer))
	 .kv("revoker", hx(a.revoker)).kv("policy", sx(a.policy)).kv("reason", sx(a.reason)).kv("revcode", a.revcode).kv("pkalgo2", a.pkalgo2).kv("target_pk", a.target_pk).kv("target_h", a.target_h)
	 .kv("target_hash", hx(a.target_hash)).kv("embedded", hx(a.embedded)).kv("attested", hx(a.attested)).kv("bis", a.bis);
	std::vector<std::string> nn, nv; for (auto &n : a.notations) { nn.push_back(hx(n.first)); nv.push_back(hx(n.second)); }
	j.arr("notation_names", nn).arr("notation_values", nv);
	return j.str();
}
static Oct sigprep(const SigArgs &a) {
	Oct out; tmcg_openpgp_signature_t ty = (tmcg_openpgp_signature_t)a.type; tmcg_openpgp_pkalgo_t pk = (tmcg_openpgp_pkalgo_t)a.pkalgo; tmcg_openpgp_hashalgo_t h = (tmcg_openpgp_hashalgo_t)a.hashalgo;
	if (a.fn == "self") PGP::PacketSigPrepareSelfSignature(ty, pk, h, a.sigtime, a.exptime, a.flags, a.issuer, a.bis, out);
	else if (a.fn == "self-dsa") PGP::PacketSigPrepareSelfSignature(ty, h, a.sigtime, a.exptime, a.flags, a.issuer, out);
	else if (a.fn == "revoker") PGP::PacketSigPrepareDesignatedRevoker(pk, h, a.sigtime, a.flags, a.issuer, (tmcg_openpgp_pkalgo_t)a.pkalgo2, a.revoker, a.bis, out);
	else if (a.fn == "revoker-dsa") PGP::PacketSigPrepareDesignatedRevoker(h, a.sigtime, a.flags, a.issuer, (tmcg_openpgp_pkalgo_t)a.pkalgo2, a.revoker, out);
	else if (a.fn == "detached") PGP::PacketSigPrepareDetachedSignature(ty, pk, h, a.sigtime, a.exptime, a.policy, a.issuer, out);
	else if (a.fn == "detached-dsa") PGP::PacketSigPrepareDetachedSignature(ty, h, a.sigtime, a.exptime, a.policy, a.issuer, out);
	else if (a.fn == "detached-v5") PGP::PacketSigPrepareDetachedSignatureV5(ty, pk, h, a.sigtime, a.exptime, a.policy, a.issuer, out);
	else if (a.fn == "detached-v5-dsa") PGP::PacketSigPrepareDetachedSignatureV5(ty, h, a.sigtime, a.exptime, a.policy, a.issuer, out);
	else if (a.fn == "revocation") PGP::PacketSigPrepareRevocationSignature(ty, pk, h, a.sigtime, (tmcg_openpgp_revcode_t)a.revcode, a.reason, a.issuer, out);
	else if (a.fn == "revocation-dsa") PGP::PacketSigPrepareRevocationSignature(ty, h, a.sigtime, (tmcg_openpgp_revcode_t)a.revcode, a.reason, a.issuer, out);
	else if (a.fn == "certification") PGP::PacketSigPrepareCertificationSignature(ty, pk, h, a.sigtime, a.exptime, a.policy, a.issuer, out);
	else if (a.fn == "certification-dsa") PGP::PacketSigPrepareCertificationSignature(ty, h, a.sigtime, a.exptime, a.policy, a.issuer, out);
	else if (a.fn == "timestamp-target") PGP::PacketSigPrepareTimestampSignature(pk, h, a.sigtime, a.policy, a.issuer, (tmcg_openpgp_pkalgo_t)a.target_pk, (tmcg_openpgp_hashalgo_t)a.target_h, a.target_hash, a.notations, out);
	else if (a.fn == "timestamp-embedded") PGP::PacketSigPrepareTimestampSignature(pk, h, a.sigtime, a.policy, a.issuer, a.embedded, a.notations, out);
	else if (a.fn == "attestation") PGP::PacketSigPrepareAttestationSignature(pk, h, a.sigtime, a.policy, a.issuer, a.attested, a.notations, out);
	count("enc_SigPrepare_" + a.fn);
	record(J().kv("f", "sigprep").raw("args", sigargs_json(a)).kv("out", hx(out)).str());
	return out;
}
static std::string cstr(const unsigned char *p, size_t max) { size_t n = 0; while (n < max && p[n]) n++; return std::string((const char *)p, n); }

// wrap the hashed part into a signature packet with random signature MPIs, decode it, compare with the arguments
static Oct sig_roundtrip(Rng &r, const SigArgs &a, const Oct &hashed, int outer_pkalgo) {
	Oct left = rnd(r, 2); gcry_mpi_t rr = mpi_rand(r, outer_pkalgo == 1 || outer_pkalgo == 3 ? 1016 + r.below(9) : 150 + r.below(107)), ss = mpi_rand(r, outer_pkalgo == 1 || outer_pkalgo == 3 ? 1000 + r.below(25) : 150 + r.below(107));
	Oct pkt = enc_sig(hashed, left, outer_pkalgo, rr, ss);
	Dec d(pkt); ev("pkt-roundtrip/sig/" + a.fn);
	int version = a.fn.find("v5") != a.fn.npos ? 5 : 4;
	J w; w.raw("args", sigargs_json(a)).kv("ret", (int)d.ret).kv("packet", shorten(hx(pkt), 800));
	bool ok = d.ret == 2 && d.ctx.version == version && (int)d.ctx.pkalgo == outer_pkalgo && (int)d.ctx.hashalgo == a.hashalgo && d.ctx.sigcreationtime == (uint32_t)a.sigtime && d.rest.empty()
	          && d.ctx.left[0] == left[0] && d.ctx.left[1] == left[1] && bufeq(d.ctx.hspd, d.ctx.hspdlen, Oct(hashed.begin() + 6, hashed.end()));
	if (ok) ok = (outer_pkalgo == 1 || outer_pkalgo == 3) ? meq(d.ctx.md, ss) : (meq(d.ctx.r, rr) && meq(d.ctx.s, ss));
	std::string why;
	if (ok) {
		if (a.fn.find("revoker") == 0) { if ((int)d.ctx.type != 0x1F) why = "type"; } else if (a.fn.find("timestamp") == 0) { if ((int)d.ctx.type != 0x40) why = "type"; } else if (a.fn == "attestation") { if ((int)d.ctx.type != 0x16) why = "type"; } else if ((int)d.ctx.type != a.type) why = "type";
		Oct kid; if (a.issuer.size() == 20) kid = Oct(a.issuer.begin() + 12, a.issuer.end()); else if (a.issuer.size() == 8) kid = a.issuer;
		if (kid.size() == 8 && version == 4 && memcmp(d.ctx.issuer, kid.data(), 8)) why = "issuer";
		if ((a.issuer.size() == 20 || a.issuer.size() == 32) && a.fn.find("detached") == 0 && (d.ctx.issuerkeyversion != (a.issuer.size() == 20 ? 4 : 5) || memcmp(d.ctx.issuerfingerprint, a.issuer.data(), a.issuer.size()))) why = "issuer fingerprint";
		if (a.fn.find("self") == 0 && (d.ctx.keyexpirationtime != (uint32_t)a.exptime || !bufeq(d.ctx.keyflags, d.ctx.keyflagslen, a.flags))) why = "key expiration / flags";
		if ((a.fn.find("detached") == 0 || a.fn.find("certification") == 0) && d.ctx.sigexpirationtime != (uint32_t)a.exptime) why = "signature expiration";
		bool takes_policy = a.fn.find("detached") == 0 || a.fn.find("certification") == 0 || a.fn.find("timestamp") == 0 || a.fn == "attestation";
		if (takes_policy && !a.policy.empty() && a.policy.size() < 2048 && cstr(d.ctx.policyuri, sizeof d.ctx.policyuri) != a.policy) why = "policy";
		if (a.fn.find("revocation") == 0 && ((int)d.ctx.revocationcode != a.revcode || (a.reason.size() < 2048 && cstr(d.ctx.revocationreason, sizeof d.ctx.revocationreason) != a.reason))) why = "revocation reason";
		if (a.fn.find("revoker") == 0 && a.revoker.size() == 20 && (!(d.ctx.revocationkey_class & 0x80) || (int)d.ctx.revocationkey_pkalgo != a.pkalgo2 || memcmp(d.ctx.revocationkey_fingerprint, a.revoker.data(), 20))) why = "revocation key";
		if (a.fn == "timestamp-target" && ((int)d.ctx.signaturetarget_pkalgo != a.target_pk || (int)d.ctx.signaturetarget_hashalgo != a.target_h || memcmp(d.ctx.signaturetarget_hash, a.target_hash.data(), a.target_hash.size()))) why = "signature target";
		if (a.fn == "timestamp-embedded" && !bufeq(d.ctx.embeddedsignature, d.ctx.embeddedsignaturelen, a.embedded)) why = "embedded signature";
		if (a.fn == "attestation" && !bufeq(d.ctx.attestedcertifications, d.ctx.attestedcertificationslen, a.attested)) why = "attested certifications";
		if (d.notations.size() != a.notations.size()) why = "notations"; else for (size_t i = 0; i < a.notations.size(); i++) if (d.notations[i] != a.notations[i]) why = "notations";
	}
	if (!ok) V("roundtrip/signature-packet", "PacketDecode does not recover an emitted signature packet", w);
	else if (!why.empty()) { std::string slug = why; for (auto &c : slug) if (c == ' ' || c == '/') c = '-'; V("roundtrip/signature-subpacket-" + slug, "decoded signature subpacket fields differ from the prepared ones: " + why, w.kv("field", why)); }
	gcry_mpi_release(rr); gcry_mpi_release(ss);
	return pkt;
}

static void run_sigs(long &k) {
	const int pkalgos[6] = {1, 3, 17, 19, 22, 17};
	const int types_doc[3] = {0x00, 0x01, 0x02}, types_cert[4] = {0x10, 0x11, 0x12, 0x13}, types_rev[3] = {0x20, 0x28, 0x30};
	const char *fns[15] = {"self", "self-dsa", "revoker", "revoker-dsa", "detached", "detached-dsa", "detached-v5", "detached-v5-dsa", "revocation", "revocation-dsa", "certification", "certification-dsa", "timestamp-target", "timestamp-embedded", "attestation"};
	int reps = ctx.quick() ? 2 : 12;
	for (int fi = 0; fi < 15; fi++) for (int rep = 0; rep < reps; rep++) {
		std::string fn = fns[fi];
		J d; d.kv("group", "sig").kv("fn", fn).kv("rep", rep);
		if (!case_begin(k++, d.str())) continue;
		Rng r = case_rng(k, 8); tl_rng = &r; g_evals = 0; g_distinct.clear();
		Oct seq; int nsig = ctx.quick() ? 6 : 10;
		for (int s = 0; s < nsig; s++) {
			SigArgs a; a.fn = fn; bool dsa = fn.find("-dsa") != fn.npos;
			a.pkalgo = dsa ? 17 : pkalgos[(s + rep) % 6]; a.hashalgo = HASHES[(s * 2 + rep) % 9]; if (a.hashalgo == 1 || a.hashalgo == 3) a.hashalgo = (s % 2) ? 8 : 10;
			a.sigtime = (s == 0) ? g_vtime : (long long)r.below(0xFFFFFFFFULL); a.exptime = (s % 3 == 0) ? 0 : 1 + (long long)r.below(0xFFFFFFFEULL);
			int isz = (s % 4 == 0) ? 8 : 20; if (fn.find("v5") != fn.npos || (fn.find("detached") == 0 && s % 4 == 3)) isz = (s % 2) ? 32 : 20; if (s == 5 && fn.find("v5") == fn.npos) isz = (rep % 2) ? 0 : 20;
			a.issuer = rnd(r, isz);
			a.flags = rnd(r, 1 + (s % 3 == 2 ? r.below(4) : 0));
			if (s % 2) { size_t pl = (s == 1) ? 1 + r.below(60) : (s == 3 ? 180 + r.below(30) : 1 + r.below(1500)); for (size_t i = 0; i < pl; i++) a.policy += (char)(0x21 + r.below(0x5e)); }
			{ size_t rl = (s == 0) ? 0 : (s == 2 ? 185 + r.below(10) : r.below(300)); for (size_t i = 0; i < rl; i++) a.reason += (char)(0x20 + r.below(0x5f)); }
			static const int RC[6] = {0, 1, 2, 3, 32, 100}; a.revcode = RC[(s + rep) % 6];
			a.pkalgo2 = pkalgos[(s + 2) % 6]; a.revoker = (s % 3 == 1) ? Oct() : rnd(r, 20); a.bis = s % 2;
			a.target_pk = pkalgos[s % 6]; a.target_h = 8 + (s % 3); a.target_hash = rnd(r, a.target_h == 8 ? 32 : a.target_h == 9 ? 48 : 64);
			a.attested = rnd(r, 32 * r.below(8));
			bool takes_notations = fn.find("timestamp") == 0 || fn == "attestation";
			for (size_t i = 0, nn = takes_notations ? (s % 3) : 0; i < nn; i++) { size_t nl = 1 + r.below(40), vl = r.below(i ? 300 : 30); std::string nm; for (size_t j = 0; j < nl; j++) nm += (char)('a' + r.below(26)); nm += "@example.org"; a.notations.push_back(tmcg_openpgp_notation_t(str2oct(nm), rnd(r, vl))); }
			if (fn.find("self") == 0) { static const int T[4] = {0x13, 0x18, 0x10, 0x1F}; a.type = T[s % 4]; }
			else if (fn.find("detached") == 0) a.type = types_doc[s % 3]; else if (fn.find("certification") == 0) a.type = types_cert[s % 4]; else if (fn.find("revocation") == 0) a.type = types_rev[s % 3];
			if (fn == "timestamp-embedded") { SigArgs e; e.fn = "detached"; e.type = 0; e.pkalgo = 17; e.hashalgo = 8; e.sigtime = g_vtime; e.issuer = rnd(r, 8); Oct eh = sigprep(e), l2 = rnd(r, 2); gcry_mpi_t er = mpi_rand(r, 159), es = mpi_rand(r, 160);
				Oct ep = enc_sig(eh, l2, 17, er, es); gcry_mpi_release(er); gcry_mpi_release(es); a.embedded = body_of(ep, "embedded signature"); }
			Oct hashed = sigprep(a);
			Oct pkt = sig_roundtrip(r, a, hashed, a.pkalgo);
			if (fn.find("v5") == fn.npos) seq.insert(seq.end(), pkt.begin(), pkt.end());
			count("sig_packets");
		}
		if (!seq.empty() && rep < 2) gpg_case("list", "sigs-" + fn + "-" + std::to_string(rep), seq);
		tl_rng = nullptr;
		case_end(d.str(), g_evals > 0, J().kv("group", "sig").kv("fn", fn).kv("signatures", nsig).str(), g_evals, (long long)nsig);
	}
}

// ---------------------------------------------------------------- group G: public-key encrypted session key packets
static void run_pkesk(long &k) {
	int reps = ctx.quick() ? 4 : 24;
	for (int rep = 0; rep < reps; rep++) {
		J d; d.kv("group", "pkesk").kv("rep", rep);
		if (!case_begin(k++, d.str())) continue;
		Rng r = case_rng(k, 9); tl_rng = &r; g_evals = 0; g_distinct.clear();
		Oct seq;
		for (int s = 0; s < 6; s++) {
			Oct keyid = (s == 0) ? Oct(8, 0) : rnd(r, 8);
			static const size_t SZ[6] = {1024, 1023, 2048, 1017, 3072, 4096}; size_t bits = SZ[(s + rep) % 6] - r.below(3);
			{ gcry_mpi_t me = mpi_rand(r, bits); Oct o; PGP::PacketPkeskEncode(keyid, me, o); count("enc_PacketPkeskEncode_rsa");
			  record(J().kv("f", "pkesk").kv("algo", 1).kv("keyid", hx(keyid)).arr("mpis", {mhex(me)}).kv("out", hx(o)).str());
			  Dec dd(o); ev("pkt-roundtrip/pkesk/rsa"); if (dd.ret != 1 || dd.ctx.version != 3 || (int)dd.ctx.pkalgo != 1 || memcmp(dd.ctx.keyid, keyid.data(), 8) || !meq(dd.ctx.me, me) || !dd.rest.empty()) V("roundtrip/pkesk", "PKESK packet not recovered", J().kv("algo", 1).kv("ret", (int)dd.ret).kv("packet", shorten(hx(o), 600)));
			  seq.insert(seq.end(), o.begin(), o.end()); gcry_mpi_release(me); }
			{ gcry_mpi_t gk = mpi_rand(r, bits), myk = mpi_rand(r, bits - r.below(12)); Oct o; PGP::PacketPkeskEncode(keyid, gk, myk, o); count("enc_PacketPkeskEncode_elg");
			  record(J().kv("f", "pkesk").kv("algo", 16).kv("keyid", hx(keyid)).arr("mpis", {mhex(gk), mhex(myk)}).kv("out", hx(o)).str());
			  Dec dd(o); ev("pkt-roundtrip/pkesk/elg"); if (dd.ret != 1 || (int)dd.ctx.pkalgo != 16 || memcmp(dd.ctx.keyid, keyid.data(), 8) || !meq(dd.ctx.gk, gk) || !meq(dd.ctx.myk, myk) || !dd.rest.empty()) V("roundtrip/pkesk", "PKESK packet not recovered", J().kv("algo", 16).kv("ret", (int)dd.ret).kv("packet", shorten(hx(o), 600)));
			  seq.insert(seq.end(), o.begin(), o.end()); gcry_mpi_release(gk); gcry_mpi_release(myk); }
			{ static const size_t PB[4] = {515, 771, 1059, 263}; gcry_mpi_t ep = mpi_rand(r, PB[(s + rep) % 4]); size_t wl = 8 * (3 + r.below(6)); Oct w = rnd(r, wl); tmcg_openpgp_byte_t rkw[256]; memset(rkw, 0, sizeof rkw); memcpy(rkw, w.data(), wl);
			  Oct o; PGP::PacketPkeskEncode(keyid, ep, wl, rkw, o); count("enc_PacketPkeskEncode_ecdh");
			  record(J().kv("f", "pkesk").kv("algo", 18).kv("keyid", hx(keyid)).arr("mpis", {mhex(ep)}).kv("wrapped", hx(w)).kv("out", hx(o)).str());
			  Dec dd(o); ev("pkt-roundtrip/pkesk/ecdh"); if (dd.ret != 1 || (int)dd.ctx.pkalgo != 18 || memcmp(dd.ctx.keyid, keyid.data(), 8) || !meq(dd.ctx.ecepk, ep) || dd.ctx.rkwlen != wl || memcmp(dd.ctx.rkw, w.data(), wl) || !dd.rest.empty()) V("roundtrip/pkesk", "PKESK packet not recovered", J().kv("algo", 18).kv("ret", (int)dd.ret).kv("packet", shorten(hx(o), 600)));
			  seq.insert(seq.end(), o.begin(), o.end()); gcry_mpi_release(ep); }
		}
		{ Oct enc = rnd(r, 40 + r.below(400)), o; if (rep % 2) PGP::PacketSeipdEncode(enc, o); else PGP::PacketSedEncode(enc, o); seq.insert(seq.end(), o.begin(), o.end()); }
		if (rep < 4) gpg_case("list", "pkesk-" + std::to_string(rep), seq);
		tl_rng = nullptr;
		case_end(d.str(), true, J().kv("group", "pkesk").kv("packets", 18).str(), g_evals, 18);
	}
}

int main(int argc, char **argv) {
	init(argc, argv);
	null_cerr();
	if (!init_libTMCG()) { fprintf(stderr, "init_libTMCG failed\n"); return 2; }
	long k = 0;
	std::string only = ctx.option("group");
	if (only.empty() || only == "bytes") run_bytes(k); else k += 1000;
	k = 1000; if (only.empty() || only == "ints") run_ints(k);
	k = 2000; if (only.empty() || only == "s2k") run_s2k(k);
	k = 3000; if (only.empty() || only == "keys") run_keys(k);
	k = 3100; if (only.empty() || only == "exp") run_experimental(k);
	k = 3200; if (only.empty() || only == "sigs") run_sigs(k);
	k = 3500; if (only.empty() || only == "pkesk") run_pkesk(k);
	finish();
	return 0;
}
