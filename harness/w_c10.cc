// w_c10.cc — C10: Rabin key operations are consistent and tamper-evident.
//
// Oracles (all decided here; every evaluation is also written as a record that the
// independent Python reference ref/c10_ref.py re-decides offline):
//   round trip : verify(data, sign(data)) (all four roots of the padded value), decrypt(encrypt(x)) == x
//                byte for byte, check() of generated keys
//   tamper     : a mutated signature / ciphertext / key text, other data, other key => refused
//                (false, import failure or std::exception).  "Equivalent" = every field but the
//                root/value field textually unchanged and the value field still parses (GMP rules)
//                to a number with the same square (signature) / the same residue (ciphertext) /
//                the same integer (key text); equivalents are executed and counted, never judged.
//   forged     : paddings built with the secret key that are wrong in exactly one byte
//                (PRab w / r* / gamma, SAEP redundancy byte j) => refused
//   NIZK       : keys re-signed by their owner whose proof has fewer rounds than
//                TMCG_KEY_NIZK_STAGE{1,2,3} or one altered proof value => check() false
#include "engine.hh"
#include <cassert>
#include <memory>
#include <set>

using namespace vf;

// ------------------------------------------------------------------ small helpers
static std::vector<std::string> split(const std::string &s, char d) {   // "a|b|" -> {"a","b",""}
	std::vector<std::string> v; size_t p = 0;
	for (;;) { size_t e = s.find(d, p); if (e == s.npos) { v.push_back(s.substr(p)); break; } v.push_back(s.substr(p, e - p)); p = e + 1; }
	return v;
}
static std::string join(const std::vector<std::string> &v, char d) { std::string s; for (size_t i = 0; i < v.size(); i++) { if (i) s += d; s += v[i]; } return s; }
static std::string hexs(const std::string &s) { return hex((const unsigned char *)s.data(), s.size()); }
static bool parse62(mpz_ptr r, const std::string &s) { return mpz_set_str(r, s.c_str(), TMCG_MPZ_IO_BASE) >= 0; }
struct Z { mpz_t v; Z() { mpz_init(v); } Z(const Z &o) { mpz_init_set(v, o.v); } Z &operator=(const Z &o) { mpz_set(v, o.v); return *this; } ~Z() { mpz_clear(v); } operator mpz_ptr() { return v; } operator mpz_srcptr() const { return v; } };

// deterministic message generator (same formula in ref/c10_ref.py)
static std::string gen_msg(size_t len, unsigned seed) {
	std::string s(len, '\0');
	for (size_t i = 0; i < len; i++) s[i] = (char)((seed * 31u + (unsigned)(i * i * 7u) + (unsigned)(i * 13u) + (unsigned)(i >> 8)) & 0xff);
	return s;
}
struct Mg { std::string data; long gen_len = -1; unsigned gen_seed = 0; std::string label; };
static void put_data(J &j, const Mg &m) { if (m.gen_len >= 0) j.raw("dgen", "[" + std::to_string(m.gen_len) + "," + std::to_string(m.gen_seed) + "]"); else j.kv("dhex", hexs(m.data)); }

// ------------------------------------------------------------------ caller-side size preconditions
struct SizePre { bool sign_ok, enc_ok; std::vector<unsigned long> mbits; };
static bool pre_sign_bits(unsigned long b) { size_t md = gcry_md_get_algo_dlen(TMCG_GCRY_MD_ALGO), mn = b / 8; return b > mn * 8 && mn > md + TMCG_PRAB_K0 && (mn - md) >= TMCG_PRAB_K0; }
static bool pre_enc_bits(unsigned long b) { size_t s2 = 2 * TMCG_SAEP_S0; return s2 < b / 16 && (b / 8) > s2 && s2 < (b / 8) - s2 && TMCG_SAEP_S0 < b / 32; }
// generate(keysize): primes of keysize/2+1 bits, kept iff |m| >= keysize+1 and m < 3*2^keysize
static SizePre size_pre(unsigned long keysize) {
	SizePre r; r.sign_ok = r.enc_ok = true; unsigned long hb = keysize / 2 + 1;
	for (unsigned long b = 2 * hb - 1; b <= 2 * hb; b++) if (b >= keysize + 1 && b <= keysize + 2) r.mbits.push_back(b);
	if (r.mbits.empty() || keysize > TMCG_MAX_KEYBITS || keysize < 16) { r.sign_ok = r.enc_ok = false; return r; }
	for (auto b : r.mbits) { if (!pre_sign_bits(b)) r.sign_ok = false; if (!pre_enc_bits(b)) r.enc_ok = false; }
	return r;
}
static unsigned long min_size(bool need_enc) { for (unsigned long k = 16; k < 4096; k++) { SizePre p = size_pre(k); if (p.sign_ok && (!need_enc || p.enc_ok)) return k; } return 0; }

// ------------------------------------------------------------------ keys (lazy, deterministic in ctx.seed)
struct KeySpec { unsigned long bits; bool nizk; int id; };
struct KeyEnt {
	KeySpec spec; std::unique_ptr<TMCG_SecretKey> sk; std::unique_ptr<TMCG_PublicKey> pk; std::string sect, pubt, kid, ref; double gen_s = 0;
	bool can_sign() const { return pre_sign_bits(mpz_sizeinbase(sk->m, 2)); }
	bool can_enc() const { return pre_enc_bits(mpz_sizeinbase(sk->m, 2)); }
	long emitted_case = -1;
};
static std::map<int, std::unique_ptr<KeyEnt>> g_keys;
static KeyEnt &get_key(const KeySpec &s) {
	auto it = g_keys.find(s.id);
	if (it != g_keys.end()) return *it->second;
	std::unique_ptr<KeyEnt> e(new KeyEnt); e->spec = s;
	Rng r(ctx.seed, 0xC10, (uint64_t)s.id); Rng *prev = tl_rng; tl_rng = &r;
	e->sk.reset(new TMCG_SecretKey("Alice" + std::to_string(s.id), "alice" + std::to_string(s.id) + "@example.org", s.bits, s.nizk));
	tl_rng = prev;
	e->pk.reset(new TMCG_PublicKey(*e->sk));
	{ std::ostringstream o; o << *e->sk; e->sect = o.str(); } { std::ostringstream o; o << *e->pk; e->pubt = o.str(); }
	e->kid = e->pk->keyid();
	char b[24]; snprintf(b, sizeof b, "%016llx", (unsigned long long)fnv(e->pubt)); e->ref = b;
	count("keys_generated"); count(std::string("keygen_") + std::to_string(s.bits) + (s.nizk ? "n" : ""));
	KeyEnt &ref = *e; g_keys[s.id] = std::move(e); return ref;
}
// key material for the offline reference (once per case and key)
static void emit_key(KeyEnt &K) {
	if (K.emitted_case == ctx.cur_case) return; K.emitted_case = ctx.cur_case;
	record(J().kv("r", "key").kv("k", K.ref).kv("bits", K.spec.bits).kv("nizkkey", K.spec.nizk).kz("m", K.sk->m).kz("y", K.sk->y).kz("p", K.sk->p).kz("q", K.sk->q)
	       .kv("name", K.sk->name).kv("email", K.sk->email).kv("type", K.sk->type).kv("nizk", K.sk->nizk).kv("sig", K.sk->sig).kv("pubfnv", std::to_string(fnv(K.pubt))).kv("secfnv", std::to_string(fnv(K.sect))).str());
}

// four square roots of a (a QR) mod m = p*q, p,q = 3 mod 4 — computed here, not by the library
static void four_roots(Z r[4], mpz_srcptr a, const TMCG_SecretKey &sk) {
	Z rp, rq, e, u, v, g, t1, t2;
	mpz_add_ui(e, sk.p, 1); mpz_fdiv_q_2exp(e, e, 2); mpz_powm(rp, a, e, sk.p);
	mpz_add_ui(e, sk.q, 1); mpz_fdiv_q_2exp(e, e, 2); mpz_powm(rq, a, e, sk.q);
	mpz_gcdext(g, u, v, sk.p, sk.q);                 // u p + v q = 1
	mpz_mul(t1, u, sk.p); mpz_mul(t1, t1, rq);       // = rq mod q, 0 mod p
	mpz_mul(t2, v, sk.q); mpz_mul(t2, t2, rp);       // = rp mod p, 0 mod q
	mpz_add(r[0], t1, t2); mpz_mod(r[0], r[0], sk.m); mpz_sub(r[1], sk.m, r[0]);
	mpz_sub(r[2], t2, t1); mpz_mod(r[2], r[2], sk.m); mpz_sub(r[3], sk.m, r[2]);
}

// ------------------------------------------------------------------ mutation catalogue (QR family + structure)
struct Mut { std::string name, text; bool maybe_equiv; };
// integer field `v` (text), modulus m: value mutations of the catalogue
static std::vector<Mut> int_muts(const std::string &vt, mpz_srcptr m, Rng &r, bool full, bool with_equiv) {
	std::vector<Mut> o; Z v, t; if (!parse62(v, vt)) return o;
	auto add = [&](const char *n, mpz_srcptr x, bool eq = false) { o.push_back({n, mpz_b62(x), eq}); };
	mpz_add_ui(t, v, 1); add("v+1", t);
	mpz_mul_2exp(t, v, 1); mpz_mod(t, t, m); add("2v mod m", t);
	mpz_set_ui(t, 0); add("0", t);
	if (vt.size() > 1) o.push_back({"truncate", vt.substr(0, vt.size() - 1), false});
	if (full) {
		mpz_set_ui(t, 1); add("1", t);
		mpz_sub_ui(t, v, 1); add("v-1", t);
		mpz_mul_2exp(t, v, 2); mpz_mod(t, t, m); add("4v mod m", t);
		if (vt.size() > 1) o.push_back({"drop first char", vt.substr(1), false});
		o.push_back({"empty", "", false});
		{ std::string s = vt; size_t p = r.below(s.size()); static const char *dg = "0123456789ABCDEFGHIJKLMNOPQRSTUVWXYZabcdefghijklmnopqrstuvwxyz"; char c; do c = dg[r.below(62)]; while (c == s[p]); s[p] = c; o.push_back({"digit changed", s, false}); }
		o.push_back({"digit appended", vt + "7", false});
		o.push_back({"non-digit", vt.substr(0, vt.size() / 2) + "!" + vt.substr(vt.size() / 2), false});
	}
	if (with_equiv) {
		mpz_neg(t, v); add("-v", t, true);
		mpz_sub(t, m, v); add("m-v", t, true);
		mpz_add(t, v, m); add("v+m", t, true);
		o.push_back({"leading zero", "0" + vt, true});
	}
	return o;
}
// mutations of a short text field (magic, key id)
static std::vector<Mut> str_muts(const std::string &s, Rng &r, bool full) {
	std::vector<Mut> o;
	if (!s.empty()) { std::string t = s; size_t p = r.below(t.size()); t[p] = (t[p] == 'x' ? 'y' : 'x'); o.push_back({"char changed", t, false}); }
	o.push_back({"empty", "", false});
	if (full) {
		if (s.size() > 1) { o.push_back({"truncate", s.substr(0, s.size() - 1), false}); o.push_back({"drop first char", s.substr(1), false}); }
		o.push_back({"char appended", s + "x", false});
		if (!s.empty()) { std::string t = s; t[0] ^= 0x20; o.push_back({"case flipped", t, false}); }
	}
	return o;
}

// ------------------------------------------------------------------ signatures
struct SigCase {
	KeyEnt *K; Mg msg; std::string sig; std::vector<std::string> f;   // f = {"sig", kid, value, ""}
	Z val, sq;
};
// reference classification of a mutated signature text (strict: every other field textually unchanged)
static bool sig_equiv(const SigCase &S, const std::string &t) {
	std::vector<std::string> g = split(t, '|');
	if (g.size() < 4) return false;                 // fewer than three delimiters
	if (g[0] != "sig" || g[1] != S.f[1]) return false;
	Z v, s; if (!parse62(v, g[2])) return false;
	mpz_mul(s, v, v); mpz_mod(s, s, S.K->sk->m);
	return mpz_cmp(s, S.sq) == 0;
}
static long g_evals = 0; static std::set<uint64_t> g_distinct; static std::string g_sample;
static void note(const std::string &cls, const std::string &what) { g_evals++; g_distinct.insert(fnv(cls + "\x01" + what)); }

// who: 0 pk object, 1 secret key's verify, 2 freshly imported public key
static bool lib_verify(KeyEnt &K, int who, const std::string &data, const std::string &t) {
	if (who == 1) return K.sk->verify(data, t);
	if (who == 2) { TMCG_PublicKey p; if (!p.import(K.pubt)) return false; return p.verify(data, t); }
	return K.pk->verify(data, t);
}
static void eval_sig(SigCase &S, const std::string &t, const std::string &field, const std::string &mut, int who, KeyEnt *under = nullptr, const Mg *odata = nullptr) {
	KeyEnt &V = under ? *under : *S.K; const Mg &D = odata ? *odata : S.msg;
	bool same = (t == S.sig) && !under && !odata;
	bool equiv = !under && !odata && sig_equiv(S, t);
	std::string exc; int acc = accepted([&] { return lib_verify(V, who, D.data, t); }, &exc);
	std::string cls = same ? "honest" : (equiv ? "equivalent" : "tamper");
	note("sig/" + field + "/" + mut, S.K->ref + std::to_string(S.msg.data.size()));
	count("sig_" + cls + (acc ? "_accepted" : "_refused")); count("sig_field_" + field); if (!exc.empty()) count("sig_refused_by_exception");
	if (ctx.option_l("rec", 1)) { emit_key(V); J j; j.kv("r", "v").kv("k", V.ref).kv("cls", cls).kv("field", field).kv("mut", mut).kv("txt", t).kv("acc", acc); put_data(j, D); record(j.str()); }
	J w; w.kv("keybits", S.K->spec.bits).kv("nizk", S.K->spec.nizk).kv("field", field).kv("mutation", mut).kv("original", S.sig).kv("mutated", shorten(t, 600)).kv("data_label", D.label).kv("data_hex", shorten(hexs(D.data), 200)).kv("verifier", who == 0 ? "TMCG_PublicKey" : who == 1 ? "TMCG_SecretKey" : "imported TMCG_PublicKey").kv("pubkey", shorten(V.pubt, 700));
	if (same && !acc) violation("C10/sig/honest-signature-refused", "verify(data, sign(data)) returned false", w.str());
	if (cls == "tamper" && acc) {
		std::string site = under ? "other-key" : odata ? "other-data" : field;
		violation("C10/sig/tamper-accepted/" + site, "verify() accepted a signature that was altered (" + field + ": " + mut + ")", w.str());
	}
	if (g_sample.empty() && cls == "tamper") g_sample = J().kv("op", "verify").kv("keybits", S.K->spec.bits).kv("field", field).kv("mutation", mut).kv("mutated", shorten(t, 120)).kv("accepted", (bool)acc).str();
}

static bool make_sig(SigCase &S, KeyEnt &K, const Mg &m) {
	S.K = &K; S.msg = m; S.sig = K.sk->sign(m.data); S.f = split(S.sig, '|');
	if (S.f.size() != 4 || S.f[0] != "sig" || !S.f[3].empty() || !parse62(S.val, S.f[2])) { violation("C10/sig/malformed-signature", "sign() returned text that is not sig|<keyid>|<value>|", J().kv("sig", S.sig).str()); return false; }
	mpz_mul(S.sq, S.val, S.val); mpz_mod(S.sq, S.sq, K.sk->m);
	if (S.f[1] != K.kid) violation("C10/sig/keyid-mismatch", "signature carries a key id different from keyid()", J().kv("sig", S.sig).kv("keyid", K.kid).str());
	return true;
}

// PRab padding with chosen randomness (replica of sign(); used for forged paddings only)
static void prab_pad(std::vector<unsigned char> &yy, const KeyEnt &K, const std::string &data, const unsigned char *r20) {
	size_t md = gcry_md_get_algo_dlen(TMCG_GCRY_MD_ALGO), mn = mpz_sizeinbase(K.sk->m, 2) / 8;
	std::string Mr = data + std::string((const char *)r20, TMCG_PRAB_K0);
	std::vector<unsigned char> w(md), g12(mn);
	tmcg_h(w.data(), (const unsigned char *)Mr.data(), Mr.size());
	tmcg_g(g12.data(), mn - md, w.data(), md);
	yy.assign(mn, 0); memcpy(yy.data(), w.data(), md);
	for (size_t i = 0; i < TMCG_PRAB_K0; i++) yy[md + i] = r20[i] ^ g12[i];
	memcpy(yy.data() + md + TMCG_PRAB_K0, g12.data() + TMCG_PRAB_K0, mn - md - TMCG_PRAB_K0);
}

static std::vector<Mg> message_classes(Rng &r, bool quick, bool big) {
	std::vector<Mg> v; auto lit = [&](const std::string &s, const char *l) { Mg m; m.data = s; m.label = l; v.push_back(m); };
	auto gen = [&](size_t n, unsigned seed, const char *l) { Mg m; m.data = gen_msg(n, seed); m.gen_len = (long)n; m.gen_seed = seed; m.label = l; v.push_back(m); };
	lit("", "empty"); lit(std::string(1, '\0'), "one NUL byte"); lit("a", "one byte"); lit("To be signed ...", "text");
	lit(std::string("a\0b\0\0c", 6), "embedded NUL"); lit("x|y^z|", "delimiters"); lit("sig|ID8^aaaaaaaa|123|", "looks like a signature");
	gen(35, 1, "35 bytes (hash block boundary with r)"); gen(36, 2, "36 bytes"); gen(43, 3, "43 bytes"); gen(44, 4, "44 bytes");
	gen(1000, 5, "1000 bytes");
	if (big) gen(1 << 20, 6, "1 MiB");
	size_t extra = quick ? 2 : 12;
	for (size_t i = 0; i < extra; i++) gen(r.below(3000), (unsigned)r.below(1000000), "random length");
	return v;
}

// ------------------------------------------------------------------ ciphertexts
struct EncCase { KeyEnt *K; unsigned char x[TMCG_SAEP_S0]; std::string ct; std::vector<std::string> f; Z c; };
static bool enc_equiv(const EncCase &E, const std::string &t) {
	std::vector<std::string> g = split(t, '|');
	if (g.size() < 4) return false;
	if (g[0] != "enc" || g[1] != E.f[1]) return false;
	Z v; if (!parse62(v, g[2])) return false;
	return mpz_congruent_p(v, E.c, E.K->sk->m) != 0;
}
// SAEP decoding of one root with this harness' own copy of the padding arithmetic
static bool saep_decode(const KeyEnt &K, mpz_srcptr root, unsigned char *out) {
	size_t s2 = 2 * TMCG_SAEP_S0, s = mpz_sizeinbase(K.sk->m, 2) / 8, s1 = s - s2;
	if (mpz_sizeinbase(root, 2) > 8 * s) return false;          // does not fit the padded length
	std::vector<unsigned char> yy(s, 0), g12(s2);
	size_t cnt = 0; std::vector<unsigned char> tmp(s + 8, 0); mpz_export(tmp.data(), &cnt, 1, 1, 1, 0, root);   // big endian bytes
	memcpy(yy.data() + (s - cnt), tmp.data(), cnt);
	tmcg_g(g12.data(), s2, yy.data() + s2, s1);
	for (size_t i = 0; i < s2; i++) g12[i] ^= yy[i];
	for (size_t i = TMCG_SAEP_S0; i < s2; i++) if (g12[i]) return false;
	memcpy(out, g12.data(), TMCG_SAEP_S0); return true;
}
static void eval_enc(EncCase &E, const std::string &t, const std::string &field, const std::string &mut, KeyEnt *under = nullptr) {
	KeyEnt &D = under ? *under : *E.K;
	bool same = (t == E.ct) && !under, equiv = !under && enc_equiv(E, t);
	std::unique_ptr<unsigned char[]> out(new unsigned char[TMCG_SAEP_S0]); memset(out.get(), 0xA5, TMCG_SAEP_S0);   // exact-size heap buffer: ASan guards it
	std::string exc; int acc = accepted([&] { return D.sk->decrypt(out.get(), t); }, &exc);
	std::string cls = same ? "honest" : (equiv ? "equivalent" : "tamper");
	note("enc/" + field + "/" + mut, E.K->ref + hex(E.x, TMCG_SAEP_S0));
	count("enc_" + cls + (acc ? "_accepted" : "_refused")); count("enc_field_" + field);
	bool bytes_ok = acc && memcmp(out.get(), E.x, TMCG_SAEP_S0) == 0;
	if (ctx.option_l("rec", 1)) { emit_key(D); record(J().kv("r", "d").kv("k", D.ref).kv("cls", cls).kv("field", field).kv("mut", mut).kv("txt", t).kv("acc", acc).kv("out", acc ? hex(out.get(), TMCG_SAEP_S0) : "").kv("x", hex(E.x, TMCG_SAEP_S0)).str()); }
	J w; w.kv("keybits", E.K->spec.bits).kv("field", field).kv("mutation", mut).kv("original", E.ct).kv("mutated", shorten(t, 600)).kv("plaintext", hex(E.x, TMCG_SAEP_S0)).kv("returned", acc ? hex(out.get(), TMCG_SAEP_S0) : "").kv("seckey", shorten(D.sect, 900));
	if (same && !acc) violation("C10/enc/honest-ciphertext-refused", "decrypt(encrypt(x)) returned false", w.str());
	if ((same || equiv) && acc && !bytes_ok) violation("C10/enc/wrong-plaintext", "decrypt returned bytes different from the encrypted value", w.str());
	if (cls == "tamper" && acc) violation(std::string("C10/enc/tamper-accepted/") + (under ? "other-key" : field), "decrypt() accepted a ciphertext that was altered (" + field + ": " + mut + ")", w.str());
	if (g_sample.empty() && cls == "tamper") g_sample = J().kv("op", "decrypt").kv("keybits", E.K->spec.bits).kv("field", field).kv("mutation", mut).kv("mutated", shorten(t, 120)).kv("accepted", (bool)acc).str();
}
static bool make_enc(EncCase &E, KeyEnt &K, const unsigned char *x, bool via_sk) {
	E.K = &K; memcpy(E.x, x, TMCG_SAEP_S0);
	E.ct = via_sk ? K.sk->encrypt(x) : K.pk->encrypt(x); E.f = split(E.ct, '|');
	if (E.f.size() != 4 || E.f[0] != "enc" || !E.f[3].empty() || !parse62(E.c, E.f[2])) { violation("C10/enc/malformed-ciphertext", "encrypt() returned text that is not enc|<keyid>|<value>|", J().kv("ct", E.ct).str()); return false; }
	if (E.f[1] != K.kid) violation("C10/enc/keyid-mismatch", "ciphertext carries a key id different from keyid()", J().kv("ct", E.ct).kv("keyid", K.kid).str());
	return true;
}
// all four roots: exactly one decodes with valid redundancy, to x; position in the library's own order is recorded
static void four_root_check(EncCase &E) {
	KeyEnt &K = *E.K; Z r[4]; four_roots(r, E.c, *K.sk);
	int pass = 0; unsigned char o[TMCG_SAEP_S0]; bool val_ok = false;
	for (int k = 0; k < 4; k++) { Z s; mpz_mul(s, r[k], r[k]); mpz_mod(s, s, K.sk->m); if (mpz_cmp(s, E.c)) { violation("C10/harness/root-not-a-root", "harness root computation wrong"); return; } if (saep_decode(K, r[k], o)) { pass++; val_ok = memcmp(o, E.x, TMCG_SAEP_S0) == 0; } }
	Z l[4]; tmcg_mpz_sqrtmn_fast_all(l[0], l[1], l[2], l[3], E.c, K.sk->p, K.sk->q, K.sk->m, K.sk->gcdext_up, K.sk->gcdext_vq, K.sk->pa1d4, K.sk->qa1d4);
	int pos = -1; for (int k = 0; k < 4; k++) if (saep_decode(K, l[k], o) && pos < 0) pos = k;
	std::set<std::string> ds; for (int k = 0; k < 4; k++) ds.insert(mpz_dec(l[k])); for (int k = 0; k < 4; k++) ds.insert(mpz_dec(r[k]));
	count("enc_four_root_checks"); if (pos >= 0) count("enc_valid_root_at_library_position_" + std::to_string(pos));
	note("enc/four-roots", K.ref + hex(E.x, TMCG_SAEP_S0));
	J w; w.kv("keybits", K.spec.bits).kv("ct", E.ct).kv("plaintext", hex(E.x, TMCG_SAEP_S0)).kv("roots_passing_redundancy", pass);
	if (ds.size() != 4) violation("C10/enc/roots-differ-from-reference", "library square roots are not the four roots of the ciphertext", w.str());
	if (pass != 1 || !val_ok) violation("C10/enc/redundancy-not-unique", "not exactly one of the four roots carries valid redundancy and the plaintext", w.str());
}
// ciphertext whose padded block carries a redundancy string that is non-zero in exactly byte j (built like encrypt())
static std::string forged_saep(const KeyEnt &K, const unsigned char *x, size_t j, unsigned char v, Rng &r) {
	size_t s2 = 2 * TMCG_SAEP_S0, s = mpz_sizeinbase(K.sk->m, 2) / 8, s1 = s - s2;
	std::vector<unsigned char> rr(s1), Mt(s2, 0), g12(s2), yy(s);
	r.fill(rr.data(), s1); memcpy(Mt.data(), x, TMCG_SAEP_S0); Mt[TMCG_SAEP_S0 + j] = v;
	tmcg_g(g12.data(), s2, rr.data(), s1);
	for (size_t i = 0; i < s2; i++) yy[i] = Mt[i] ^ g12[i];
	memcpy(yy.data() + s2, rr.data(), s1);
	Z c; mpz_import(c, 1, -1, s, 1, 0, yy.data()); mpz_mul(c, c, c); mpz_mod(c, c, K.sk->m);
	return "enc|" + K.kid + "|" + mpz_b62(c) + "|";
}

// ------------------------------------------------------------------ key texts
// reference: does the mutated key text denote the same key (every field equal as value)?
static bool key_equiv(const KeyEnt &K, bool sec, const std::string &t) {
	std::vector<std::string> o = split(sec ? K.sect : K.pubt, '|'), g = split(t, '|');
	size_t nint = sec ? 4 : 2, nf = 4 + nint + 1;      // magic,name,email,type, ints..., nizk, then sig (rest)
	if (g.size() < nf + 1 || o.size() < nf + 1) return false;
	for (size_t i = 0; i < 4; i++) if (g[i] != o[i]) return false;
	for (size_t i = 4; i < 4 + nint; i++) { Z a, b; if (!parse62(a, g[i]) || !parse62(b, o[i]) || mpz_cmp(a, b)) return false; }
	if (g[nf - 1] != o[nf - 1]) return false;        // nizk text
	// sig = rest: sig|kid|value|<ignored>; the value field may be any representation with the same square
	if (g.size() < nf + 3 || g[nf] != o[nf] || g[nf + 1] != o[nf + 1]) return false;
	Z a, b, mm; if (!parse62(a, g[nf + 2]) || !parse62(b, o[nf + 2]) || !parse62(mm, o[4])) return false;
	mpz_mul(a, a, a); mpz_mod(a, a, mm); mpz_mul(b, b, b); mpz_mod(b, b, mm);
	return mpz_cmp(a, b) == 0;
}
// compact encoding of a mutated text relative to its original (common prefix / suffix)
static void put_patch(J &j, const std::string &orig, const std::string &t) {
	size_t pl = 0; while (pl < orig.size() && pl < t.size() && orig[pl] == t[pl]) pl++;
	size_t sl = 0; while (sl < orig.size() - pl && sl < t.size() - pl && orig[orig.size() - 1 - sl] == t[t.size() - 1 - sl]) sl++;
	j.kv("pl", (long long)pl).kv("sl", (long long)sl).kv("mid", t.substr(pl, t.size() - pl - sl));
}
static int eval_keytext(KeyEnt &K, bool sec, const std::string &t, const std::string &field, const std::string &mut, bool judged = true) {
	const std::string &orig = sec ? K.sect : K.pubt;
	bool same = (t == orig), equiv = key_equiv(K, sec, t);
	std::string exc; bool imported = false;
	int acc = accepted([&] {
		if (sec) { TMCG_SecretKey s; if (!s.import(t)) return false; imported = true; return s.check(); }
		TMCG_PublicKey p; if (!p.import(t)) return false; imported = true; return p.check(); }, &exc);
	std::string cls = same ? "honest" : (equiv ? "equivalent" : (judged ? "tamper" : "unjudged"));
	note(std::string(sec ? "sec/" : "pub/") + field + "/" + mut, K.ref);
	count(std::string("key_") + cls + (acc ? "_accepted" : (imported ? "_check_false" : "_import_refused"))); count(std::string(sec ? "sec_field_" : "pub_field_") + field.substr(0, field.find(':')));
	if (ctx.option_l("rec", 1)) { emit_key(K); J j; j.kv("r", "c").kv("k", K.ref).kv("sec", sec).kv("cls", cls).kv("field", field).kv("mut", mut).kv("acc", acc).kv("imp", imported); put_patch(j, orig, t); record(j.str()); }
	J w; w.kv("keybits", K.spec.bits).kv("nizk", K.spec.nizk).kv("kind", sec ? "secret key text" : "public key text").kv("field", field).kv("mutation", mut).kv("original", shorten(orig, 900)).kv("mutated", shorten(t, 900)).kv("mutated_fnv", fnv(t));
	if (same && !acc) violation("C10/key/generated-key-refused", "check() of an exported and re-imported generated key is false", w.str());
	if (cls == "tamper" && acc) violation("C10/key/tamper-accepted/" + field.substr(0, field.find(':')), "check() accepted a key text that was altered (" + field + ": " + mut + ")", w.str());
	if (g_sample.empty() && cls == "tamper") g_sample = J().kv("op", "check").kv("keybits", K.spec.bits).kv("nizk", K.spec.nizk).kv("field", field).kv("mutation", mut).kv("accepted", (bool)acc).str();
	return acc;
}

// ------------------------------------------------------------------ NIZK replica (generate() with free stage sizes)
struct Chain {      // the hash chain of common random numbers depends on (m, y) only
	const TMCG_SecretKey &sk; std::ostringstream input; std::vector<Z> el; size_t mnsize; std::vector<unsigned char> mn;
	explicit Chain(const TMCG_SecretKey &s) : sk(s) { input << sk.m << "^" << sk.y; mnsize = mpz_sizeinbase(sk.m, 2) / 8; mn.resize(mnsize); }
	mpz_srcptr at(size_t i) {
		while (el.size() <= i) { std::string in = input.str(); tmcg_g(mn.data(), mnsize, (const unsigned char *)in.data(), in.size()); Z f; mpz_import(f, 1, -1, mnsize, 1, 0, mn.data()); mpz_mod(f, f, sk.m); input << (mpz_srcptr)f; el.push_back(f); }
		return el[i];
	}
};
struct Proof { size_t s[3]; std::vector<std::string> v[3]; std::string text() const { std::string t = "nzk^"; for (int k = 0; k < 3; k++) { t += std::to_string(s[k]) + "^"; for (auto &x : v[k]) t += x + "^"; } return t; } };
static Proof make_proof(Chain &C, size_t s1, size_t s2, size_t s3) {
	const TMCG_SecretKey &sk = C.sk; Proof P; P.s[0] = s1; P.s[1] = s2; P.s[2] = s3; size_t cur = 0; Z foo, bar;
	for (size_t i = 0; i < s1; i++) { do { mpz_set(foo, C.at(cur++)); mpz_gcd(bar, foo, sk.m); } while (mpz_cmp_ui(bar.v, 1)); mpz_powm(bar, foo, sk.m1pq, sk.m); P.v[0].push_back(mpz_b62(bar)); }
	for (size_t i = 0; i < s2; i++) {
		do { mpz_set(foo, C.at(cur++)); mpz_gcd(bar, foo, sk.m); } while (mpz_cmp_ui(bar.v, 1));
		bool done = false;
		for (int tr = 0; tr < 4 && !done; tr++) {       // +foo, -foo, -2foo, +2foo (the order of generate())
			if (tr == 1) mpz_neg(foo, foo); if (tr == 2) mpz_mul_2exp(foo, foo, 1); if (tr == 3) mpz_neg(foo, foo);
			if (tmcg_mpz_qrmn_p(foo, sk.p, sk.q)) { tmcg_mpz_sqrtmn_r(bar, foo, sk.p, sk.q, sk.m); done = true; }
		}
		if (!done) mpz_set_ui(bar, 0);
		P.v[1].push_back(mpz_b62(bar));
	}
	for (size_t i = 0; i < s3; i++) {
		do { mpz_set(foo, C.at(cur++)); } while (mpz_jacobi(foo, sk.m) != 1);
		if (!tmcg_mpz_qrmn_p(foo, sk.p, sk.q)) { mpz_mul(foo, foo, sk.y); mpz_mod(foo, foo, sk.m); }
		tmcg_mpz_sqrtmn_r(bar, foo, sk.p, sk.q, sk.m); P.v[2].push_back(mpz_b62(bar));
	}
	return P;
}
// the owner re-signs a key with (possibly altered) nizk / y — the last step of generate()
static std::string resign(const TMCG_SecretKey &base, const std::string &nizk, mpz_srcptr y, Rng &r) {
	TMCG_SecretKey sk(base); sk.nizk = nizk; mpz_set(sk.y, y); sk.sig = "";
	if (!sk.precompute()) return "";
	std::ostringstream data, repl; data << sk.name << "|" << sk.email << "|" << sk.type << "|" << sk.m << "|" << sk.y << "|" << sk.nizk << "|";
	Rng *prev = tl_rng; tl_rng = &r; sk.sig = sk.sign(data.str()); tl_rng = prev;
	repl << "ID" << TMCG_KEYID_SIZE << "^";
	size_t pos = sk.sig.find(repl.str()); if (pos == std::string::npos) return "";
	sk.sig.replace(pos, repl.str().length() + TMCG_KEYID_SIZE, sk.keyid());
	TMCG_PublicKey pub(sk); std::ostringstream o; o << pub; return o.str();
}
// cls: "control" (not judged) or "invalid" (must be refused)
static int eval_resigned(KeyEnt &K, const std::string &pubtext, const std::string &what, const std::string &detail, bool must_refuse, const std::string &vkey) {
	std::string exc; bool imported = false;
	int acc = accepted([&] { TMCG_PublicKey p; if (!p.import(pubtext)) return false; imported = true; return p.check(); }, &exc);
	note("resigned/" + what + "/" + detail, K.ref);
	count(std::string("resigned_") + (must_refuse ? "invalid" : "control") + (acc ? "_accepted" : "_refused")); count("resigned_" + what);
	if (ctx.option_l("rec", 1)) { emit_key(K); J j; j.kv("r", "rk").kv("k", K.ref).kv("what", what).kv("detail", detail).kv("must_refuse", must_refuse).kv("acc", acc); put_patch(j, K.pubt, pubtext); record(j.str()); }
	if (must_refuse && acc) violation("C10/key/" + vkey, "check() accepted a re-signed key with an invalid validity proof or parameter (" + what + ": " + detail + ")",
		J().kv("keybits", K.spec.bits).kv("what", what).kv("detail", detail).kv("secret_key_it_was_derived_from", shorten(K.sect, 1200)).kv("pubkey_fnv", fnv(pubtext)).kv("pubkey", shorten(pubtext, 1500)).str());
	if (g_sample.empty() && must_refuse) g_sample = J().kv("op", "check (re-signed key)").kv("keybits", K.spec.bits).kv("what", what).kv("detail", detail).kv("accepted", (bool)acc).str();
	return acc;
}

// ------------------------------------------------------------------ case bodies
static void case_roundtrip(KeyEnt &K, Rng &r, KeyEnt *K2) {
	bool quick = ctx.quick();
	// generated keys are valid (secret key, public key, re-imported texts)
	{ bool ok = K.pk->check(); count("check_generated"); note("check/pk", K.ref); if (!ok) violation("C10/key/generated-key-refused", "TMCG_PublicKey::check() false for a generated key", J().kv("keybits", K.spec.bits).kv("nizk", K.spec.nizk).kv("pub", shorten(K.pubt, 900)).str());
	  if (ctx.option_l("rec", 1)) { emit_key(K); J j; j.kv("r", "c").kv("k", K.ref).kv("sec", false).kv("cls", "honest").kv("field", "-").kv("mut", "-").kv("acc", (int)ok).kv("imp", true); put_patch(j, K.pubt, K.pubt); record(j.str()); } }
	if (!K.spec.nizk) { bool ok = K.sk->check(); count("check_generated"); note("check/sk", K.ref); if (!ok) violation("C10/key/generated-key-refused", "TMCG_SecretKey::check() false for a generated key", J().kv("keybits", K.spec.bits).str()); eval_keytext(K, false, K.pubt, "-", "-"); eval_keytext(K, true, K.sect, "-", "-"); }
	else if (K.spec.bits <= 700 || ctx.thorough()) { eval_keytext(K, true, K.sect, "-", "-"); count("check_generated"); }    // proof verified once more through the secret key text
	if (K.sk->fingerprint() != K.pk->fingerprint()) violation("C10/key/fingerprint-differs", "secret and public key fingerprints differ");
	// signatures
	if (!K.can_sign()) { count("sign_precondition_unmet"); }
	else {
		std::vector<Mg> msgs = message_classes(r, quick, true);
		int who = 0;
		for (auto &m : msgs) {
			SigCase S; if (!make_sig(S, K, m)) continue;
			eval_sig(S, S.sig, "-", "-", who++ % 3); eval_sig(S, S.sig, "-", "-", who++ % 3);
			if (K.pk->sigid(S.sig) != K.kid) violation("C10/sig/sigid-differs", "sigid(sig) != keyid()", J().kv("sig", S.sig).str());
			// all four roots of the padded value are signatures sign() may return
			Z rt[4]; four_roots(rt, S.sq, *K.sk); bool found = false;
			for (int k = 0; k < 4; k++) {
				if (!mpz_cmp(rt[k], S.val)) found = true;
				std::string t = "sig|" + S.f[1] + "|" + mpz_b62(rt[k]) + "|";
				std::string exc; int acc = accepted([&] { return lib_verify(K, k % 3, m.data, t); }, &exc);
				count("sig_root_verified"); note("sig/root" + std::to_string(k), K.ref + m.label);
				if (ctx.option_l("rec", 1)) { emit_key(K); J j; j.kv("r", "v").kv("k", K.ref).kv("cls", "honest").kv("field", "value").kv("mut", "root " + std::to_string(k)).kv("txt", t).kv("acc", acc); put_data(j, m); record(j.str()); }
				if (!acc) violation("C10/sig/root-refused", "one of the four square roots of the padded value does not verify", J().kv("keybits", K.spec.bits).kv("sig", t).kv("data_hex", shorten(hexs(m.data), 200)).kv("pub", shorten(K.pubt, 700)).str());
			}
			if (!found) violation("C10/sig/value-not-a-root", "signature value is not among the four roots computed by the harness", J().kv("sig", S.sig).str());
			count("sig_roundtrips");
		}
	}
	// encryption
	if (!K.can_enc()) { count("encrypt_precondition_unmet");
		// decrypt has the same bounds as run-time checks: it must refuse
		unsigned char o[TMCG_SAEP_S0]; std::string t = "enc|" + K.kid + "|4|"; int acc = accepted([&] { return K.sk->decrypt(o, t); }); count("decrypt_below_saep_size"); if (acc) violation("C10/enc/decrypt-below-padding-size", "decrypt() succeeded for a modulus too small for SAEP", J().kv("keybits", K.spec.bits).str());
	}
	else {
		size_t nr = quick ? 50 : 50;
		for (size_t i = 0; i < nr + 4; i++) {
			unsigned char x[TMCG_SAEP_S0];
			if (i == 0) memset(x, 0, sizeof x); else if (i == 1) memset(x, 0xFF, sizeof x);
			else if (i == 2) { for (size_t j = 0; j < sizeof x; j++) x[j] = (unsigned char)j; }
			else if (i == 3) { memset(x, 0, sizeof x); x[r.below(sizeof x)] = (unsigned char)(1u << r.below(8)); }
			else r.fill(x, sizeof x);
			count(i == 0 ? "enc_plaintext_all_zero" : i == 1 ? "enc_plaintext_all_ff" : "enc_plaintext_other");
			EncCase E; if (!make_enc(E, K, x, i % 2 == 1)) continue;
			eval_enc(E, E.ct, "-", "-"); four_root_check(E); count("enc_roundtrips");
			if (K2 && i < 3) { eval_enc(E, E.ct, "-", "other key", K2); std::vector<std::string> f = E.f; f[1] = K2->kid; eval_enc(E, join(f, '|'), "keyid", "other key, key id rewritten", K2); }
		}
		// bulk round trips (plain oracle decrypt(encrypt(x)) == x only): the padding randomness r is drawn inside encrypt(), so value
		// classes of the padded block that occur with probability 2^-8 (a leading zero octet: a root shorter than the modulus) are
		// reached by count — 1200 draws miss such a class with probability e^-4.7 per key, 8 keys per run
		size_t nbulk = quick ? 1200 : 6000;
		for (size_t i = 0; i < nbulk; i++) {
			unsigned char x[TMCG_SAEP_S0], o[TMCG_SAEP_S0]; r.fill(x, sizeof x);
			std::string ct = (i & 1) ? K.sk->encrypt(x) : K.pk->encrypt(x);
			memset(o, 0xA5, sizeof o);
			int acc = accepted([&] { return K.sk->decrypt(o, ct); }); count("enc_bulk_roundtrips");
			if (!acc || memcmp(o, x, sizeof x)) {
				violation(acc ? "C10/enc/wrong-plaintext" : "C10/enc/honest-ciphertext-refused", acc ? "decrypt returned bytes different from the encrypted value" : "decrypt(encrypt(x)) returned false",
				          J().kv("key_bits", (long long)K.spec.bits).kv("x", hex(x, sizeof x)).kv("ciphertext", ct).kv("bulk_index", (long long)i).str());
				break;
			}
		}
	}
}

static void case_sig_tamper(KeyEnt &K, Rng &r, KeyEnt *K2) {
	bool full = ctx.thorough(); if (!K.can_sign()) { count("sign_precondition_unmet"); return; }
	std::vector<Mg> all = message_classes(r, true, false), msgs;
	msgs.push_back(all[0]); msgs.push_back(all[3]); msgs.push_back(all[5]); if (full) { msgs.push_back(all[4]); msgs.push_back(all[11]); msgs.push_back(all[1]); }
	int who = 0;
	for (auto &m : msgs) {
		SigCase S; if (!make_sig(S, K, m)) continue; eval_sig(S, S.sig, "-", "-", 0);
		auto with = [&](size_t i, const std::string &x) { std::vector<std::string> f = S.f; f[i] = x; return join(f, '|'); };
		// magic
		for (auto &mu : str_muts(S.f[0], r, true)) eval_sig(S, with(0, mu.text), "magic", mu.name, who++ % 3);
		eval_sig(S, with(0, "enc"), "magic", "enc", who++ % 3);
		// key id: sub-fields "ID<n>" ^ id
		{ size_t c = S.f[1].find('^'); std::string a = S.f[1].substr(0, c), b = S.f[1].substr(c + 1);
		  for (size_t p = 0; p < b.size(); p++) { if (!full && p != 0 && p != b.size() - 1 && p != r.below(b.size())) continue; std::string t = b; t[p] = (t[p] == 'x' ? 'y' : 'x'); eval_sig(S, with(1, a + "^" + t), "keyid", "id char " + std::to_string(p) + " changed", who++ % 3); }
		  eval_sig(S, with(1, "ID" + std::to_string(b.size() - 1) + "^" + b), "keyid", "count-1", who++ % 3); eval_sig(S, with(1, "ID" + std::to_string(b.size() + 1) + "^" + b), "keyid", "count+1", who++ % 3);
		  eval_sig(S, with(1, a + "^" + b.substr(0, b.size() - 1)), "keyid", "truncate", who++ % 3); eval_sig(S, with(1, a + b), "keyid", "separator removed", who++ % 3); eval_sig(S, with(1, a + "^"), "keyid", "id empty", who++ % 3);
		  eval_sig(S, with(1, ""), "keyid", "empty", who++ % 3); eval_sig(S, with(1, a + "^" + std::string(b.rbegin(), b.rend())), "keyid", "id reversed", who++ % 3);
		  // a key id of another length that is consistent with the key (suffix of the self-signature value)
		  std::string self = K.pk->selfid();
		  for (size_t n : std::vector<size_t>{0, 1, 4, 7, 9, self.size()}) { if (n > self.size()) continue; eval_sig(S, with(1, "ID" + std::to_string(n) + "^" + self.substr(self.size() - n)), "keyid-length", "ID" + std::string(n == self.size() ? "<full>" : std::to_string(n)) + "^<consistent suffix>", who++ % 3); }
		}
		// value: QR catalogue
		for (auto &mu : int_muts(S.f[2], K.sk->m, r, true, true)) eval_sig(S, with(2, mu.text), "value", mu.name, who++ % 3);
		// structure
		{ std::vector<std::string> f = S.f; f.erase(f.begin() + 2); eval_sig(S, join(f, '|'), "structure", "value field deleted", who++ % 3); }
		{ std::vector<std::string> f = S.f; f.erase(f.begin() + 1); eval_sig(S, join(f, '|'), "structure", "key id field deleted", who++ % 3); }
		{ std::vector<std::string> f = S.f; std::swap(f[1], f[2]); eval_sig(S, join(f, '|'), "structure", "key id and value swapped", who++ % 3); }
		eval_sig(S, S.sig.substr(0, S.sig.size() - 1), "structure", "last delimiter dropped", who++ % 3);
		eval_sig(S, "", "structure", "empty text", who++ % 3); eval_sig(S, "|" + S.sig, "structure", "leading delimiter", who++ % 3);
		eval_sig(S, S.sig + "x", "structure", "text after last delimiter", who++ % 3);
		{ std::string t = S.sig; for (auto &c : t) if (c == '|') c = '^'; eval_sig(S, t, "structure", "delimiters replaced by ^", who++ % 3); }
		// other data
		{ std::vector<std::pair<std::string, std::string>> od; const std::string &d = m.data;
		  if (!d.empty()) { std::string t = d; t[0] ^= 1; od.push_back({"first bit flipped", t}); t = d; t[t.size() - 1] ^= 0x80; od.push_back({"last bit flipped", t}); od.push_back({"last byte dropped", d.substr(0, d.size() - 1)}); if (d.size() > 1) { od.push_back({"first byte dropped", d.substr(1)}); od.push_back({"empty", ""}); } }
		  od.push_back({"NUL appended", d + std::string(1, '\0')}); od.push_back({"byte appended", d + "x"}); od.push_back({"delimiter appended", d + "|"}); od.push_back({"prepended", "x" + d});
		  for (auto &o : od) { Mg om; om.data = o.second; om.label = m.label + " / " + o.first; eval_sig(S, S.sig, "data", o.first, who++ % 3, nullptr, &om); } }
		// other key
		if (K2) { eval_sig(S, S.sig, "key", "other key", who++ % 3, K2); eval_sig(S, with(1, K2->kid), "key", "other key, key id rewritten", who++ % 3, K2); eval_sig(S, with(1, "ID0^"), "key", "other key, ID0^", who++ % 3, K2); }
		// forged paddings (secret key holder): one byte of w / r* / gamma altered, root taken
		{ size_t md = gcry_md_get_algo_dlen(TMCG_GCRY_MD_ALGO), mn = mpz_sizeinbase(K.sk->m, 2) / 8; size_t made[3] = {0, 0, 0}, want = full ? 6 : 2;
		  for (size_t tries = 0; tries < 400 && (made[0] < want || made[1] < want || made[2] < want); tries++) {
			unsigned char rr[TMCG_PRAB_K0]; r.fill(rr, sizeof rr); std::vector<unsigned char> yy; prab_pad(yy, K, m.data, rr);
			int part = (int)(tries % 3); if (made[part] >= want) continue;
			size_t lo = part == 0 ? 0 : part == 1 ? md : md + TMCG_PRAB_K0, hi = part == 0 ? md : part == 1 ? md + TMCG_PRAB_K0 : mn;
			size_t pos = lo + r.below(hi - lo); yy[pos] ^= (unsigned char)(1u << r.below(8));
			Z a; mpz_import(a, 1, -1, mn, 1, 0, yy.data());
			if (!tmcg_mpz_qrmn_p(a, K.sk->p, K.sk->q)) continue;
			Z rt[4]; four_roots(rt, a, *K.sk); made[part]++;
			// not an alteration of S.sig but a fresh forgery: judged directly
			std::string t = "sig|" + K.kid + "|" + mpz_b62(rt[r.below(4)]) + "|"; const char *pn = part == 0 ? "w" : part == 1 ? "r*" : "gamma";
			std::string exc; int acc = accepted([&] { return lib_verify(K, who++ % 3, m.data, t); }, &exc);
			count(std::string("sig_forged_padding_") + (acc ? "accepted" : "refused")); count(std::string("sig_forged_") + (part == 0 ? "w" : part == 1 ? "r" : "gamma")); note(std::string("sig/forged/") + pn, K.ref + std::to_string(pos));
			if (ctx.option_l("rec", 1)) { emit_key(K); J j; j.kv("r", "v").kv("k", K.ref).kv("cls", "tamper").kv("field", "padding").kv("mut", std::string("forged ") + pn).kv("txt", t).kv("acc", acc); put_data(j, m); record(j.str()); }
			if (acc) violation(std::string("C10/sig/forged-padding-accepted/") + (part == 0 ? "w" : part == 1 ? "r" : "gamma"), std::string("verify() accepted a root of a padded value whose ") + pn + " part is wrong in one bit",
				J().kv("keybits", K.spec.bits).kv("sig", t).kv("byte", (long long)pos).kv("data_hex", shorten(hexs(m.data), 200)).kv("pub", shorten(K.pubt, 700)).str());
		  } }
		count("sig_tamper_sets");
	}
}

static void case_enc_tamper(KeyEnt &K, Rng &r, KeyEnt *K2) {
	bool full = ctx.thorough(); if (!K.can_enc()) { count("encrypt_precondition_unmet"); return; }
	size_t n = full ? 6 : 3;
	for (size_t i = 0; i < n; i++) {
		unsigned char x[TMCG_SAEP_S0]; if (i == 0) memset(x, 0, sizeof x); else if (i == 1) memset(x, 0xFF, sizeof x); else r.fill(x, sizeof x);
		EncCase E; if (!make_enc(E, K, x, i % 2 == 1)) continue; eval_enc(E, E.ct, "-", "-");
		auto with = [&](size_t k, const std::string &s) { std::vector<std::string> f = E.f; f[k] = s; return join(f, '|'); };
		for (auto &mu : str_muts(E.f[0], r, true)) eval_enc(E, with(0, mu.text), "magic", mu.name);
		eval_enc(E, with(0, "sig"), "magic", "sig");
		{ size_t c = E.f[1].find('^'); std::string a = E.f[1].substr(0, c), b = E.f[1].substr(c + 1);
		  for (size_t p = 0; p < b.size(); p++) { if (!full && p != 0 && p != b.size() - 1 && p != r.below(b.size())) continue; std::string t = b; t[p] = (t[p] == 'x' ? 'y' : 'x'); eval_enc(E, with(1, a + "^" + t), "keyid", "id char " + std::to_string(p) + " changed"); }
		  eval_enc(E, with(1, "ID" + std::to_string(b.size() - 1) + "^" + b), "keyid", "count-1"); eval_enc(E, with(1, "ID" + std::to_string(b.size() + 1) + "^" + b), "keyid", "count+1");
		  eval_enc(E, with(1, a + "^" + b.substr(0, b.size() - 1)), "keyid", "truncate"); eval_enc(E, with(1, a + b), "keyid", "separator removed"); eval_enc(E, with(1, a + "^"), "keyid", "id empty"); eval_enc(E, with(1, ""), "keyid", "empty");
		  std::string self = K.pk->selfid();
		  for (size_t nn : std::vector<size_t>{0, 1, 4, 7, 9, self.size()}) { if (nn > self.size()) continue; eval_enc(E, with(1, "ID" + std::to_string(nn) + "^" + self.substr(self.size() - nn)), "keyid-length", "ID" + std::string(nn == self.size() ? "<full>" : std::to_string(nn)) + "^<consistent suffix>"); }
		}
		for (auto &mu : int_muts(E.f[2], K.sk->m, r, true, false)) eval_enc(E, with(2, mu.text), "value", mu.name);
		{ Z t; mpz_add(t, E.c, K.sk->m); eval_enc(E, with(2, mpz_b62(t)), "value", "v+m"); mpz_sub(t, E.c, K.sk->m); eval_enc(E, with(2, mpz_b62(t)), "value", "v-m (negative)"); eval_enc(E, with(2, "0" + E.f[2]), "value", "leading zero");
		  mpz_sub(t, K.sk->m, E.c); eval_enc(E, with(2, mpz_b62(t)), "value", "m-v");
		  // other quadratic residues: every root is looked at by the redundancy check
		  for (size_t k = 0; k < (full ? 40u : 12u); k++) { Z s; r.mpz_below(s, K.sk->m); mpz_mul(s, s, s); mpz_mul(s, s, E.c); mpz_mod(s, s, K.sk->m); if (!mpz_cmp(s, E.c)) continue; eval_enc(E, with(2, mpz_b62(s)), "value", "v*s^2 mod m (another residue)"); count("enc_tamper_other_residue"); } }
		{ std::vector<std::string> f = E.f; f.erase(f.begin() + 2); eval_enc(E, join(f, '|'), "structure", "value field deleted"); }
		{ std::vector<std::string> f = E.f; f.erase(f.begin() + 1); eval_enc(E, join(f, '|'), "structure", "key id field deleted"); }
		{ std::vector<std::string> f = E.f; std::swap(f[1], f[2]); eval_enc(E, join(f, '|'), "structure", "key id and value swapped"); }
		eval_enc(E, E.ct.substr(0, E.ct.size() - 1), "structure", "last delimiter dropped"); eval_enc(E, "", "structure", "empty text"); eval_enc(E, "|" + E.ct, "structure", "leading delimiter"); eval_enc(E, E.ct + "x", "structure", "text after last delimiter");
		if (K2 && K2->can_enc()) { eval_enc(E, E.ct, "key", "other key", K2); eval_enc(E, with(1, K2->kid), "key", "other key, key id rewritten", K2); eval_enc(E, with(1, "ID0^"), "key", "other key, ID0^", K2); }
		// forged SAEP blocks: redundancy non-zero in exactly one byte (every position)
		for (size_t j = 0; j < TMCG_SAEP_S0; j++) {
			size_t reps = full ? 8 : 1;
			for (size_t b = 0; b < reps; b++) {
				unsigned char v = full ? (unsigned char)(1u << b) : (unsigned char)(1 + r.below(255));
				std::string t = forged_saep(K, x, j, v, r);
				std::unique_ptr<unsigned char[]> out(new unsigned char[TMCG_SAEP_S0]); std::string exc; int acc = accepted([&] { return K.sk->decrypt(out.get(), t); }, &exc);
				count(std::string("enc_forged_redundancy_") + (acc ? "accepted" : "refused")); note("enc/forged-redundancy/" + std::to_string(j) + "/" + std::to_string(v), K.ref);
				if (ctx.option_l("rec", 1)) { emit_key(K); record(J().kv("r", "d").kv("k", K.ref).kv("cls", "tamper").kv("field", "padding").kv("mut", "redundancy byte " + std::to_string(j)).kv("txt", t).kv("acc", acc).kv("out", acc ? hex(out.get(), TMCG_SAEP_S0) : "").kv("x", hex(x, TMCG_SAEP_S0)).str()); }
				if (acc) violation("C10/enc/forged-redundancy-accepted", "decrypt() accepted a block whose redundancy is not all-zero",
					J().kv("keybits", K.spec.bits).kv("ct", t).kv("redundancy_byte", (long long)j).kv("byte_value", (long long)v).kv("seckey", shorten(K.sect, 900)).str());
			}
		}
		count("enc_tamper_sets");
	}
}

// fields of "pub|name|email|type|m|y|nizk|sig|kid|value|" resp. "sec|...|m|y|p|q|nizk|sig|kid|value|"
static void case_key_tamper(KeyEnt &K, Rng &r, bool sec) {
	bool full = ctx.thorough(); const std::string &orig = sec ? K.sect : K.pubt;
	std::vector<std::string> F = split(orig, '|'); size_t nint = sec ? 4 : 2, inz = 4 + nint, isig = inz + 1;
	if (F.size() != isig + 4) { violation("C10/key/malformed-export", "exported key text has an unexpected number of fields", J().kv("text", shorten(orig, 400)).kv("fields", (long long)F.size()).str()); return; }
	bool cheap_equiv = !K.spec.nizk;       // an accepted NIZK key costs a full proof verification
	auto with = [&](size_t i, const std::string &x) { std::vector<std::string> f = F; f[i] = x; return join(f, '|'); };
	const char *fn_pub[] = {"magic", "name", "email", "type", "m", "y", "nizk", "sig-magic", "sig-keyid", "sig-value"}, *fn_sec[] = {"magic", "name", "email", "type", "m", "y", "p", "q", "nizk", "sig-magic", "sig-keyid", "sig-value"};
	auto fname = [&](size_t i) { return std::string(sec ? fn_sec[i] : fn_pub[i]); };
	if (cheap_equiv) eval_keytext(K, sec, orig, "-", "-");
	for (size_t i = 0; i < 4; i++) { for (auto &mu : str_muts(F[i], r, true)) eval_keytext(K, sec, with(i, mu.text), fname(i), mu.name); }
	eval_keytext(K, sec, with(0, sec ? "pub" : "sec"), "magic", "other key kind");
	if (K.spec.nizk) { std::string t = F[3]; size_t p = t.find("_NIZK"); if (p != t.npos) { t.erase(p); eval_keytext(K, sec, with(3, t), "type", "_NIZK removed"); } }
	else eval_keytext(K, sec, with(3, F[3] + "_NIZK"), "type", "_NIZK appended");
	for (size_t i = 4; i < 4 + nint; i++) {
		bool judged = (i < 6);     // p and q of a secret key text are not among the altered parts the property names
		bool few = !judged && !cheap_equiv;      // an altered p/q that still imports costs a full proof verification
		for (auto &mu : int_muts(F[i], K.sk->m, r, !few, false)) eval_keytext(K, sec, with(i, mu.text), fname(i), mu.name, judged);
		if (few) continue;
		{ Z v, t; parse62(v, F[i]); mpz_neg(t, v); eval_keytext(K, sec, with(i, mpz_b62(t)), fname(i), "-v", judged); mpz_add_ui(t, v, 2); eval_keytext(K, sec, with(i, mpz_b62(t)), fname(i), "v+2", judged);
		  if (i == 5) { Z s; do r.mpz_below(s, K.sk->m); while (mpz_cmp_ui(s.v, 2) < 0); mpz_mul(s, s, s); mpz_mul(s, s, v); mpz_mod(s, s, K.sk->m); eval_keytext(K, sec, with(i, mpz_b62(s)), fname(i), "y*s^2 mod m (another non-residue)"); }
		  if (cheap_equiv) eval_keytext(K, sec, with(i, "0" + F[i]), fname(i), "leading zero", judged); }
	}
	{ std::vector<std::string> f = F; std::swap(f[4], f[5]); eval_keytext(K, sec, join(f, '|'), "structure", "m and y swapped"); }
	if (sec) { std::vector<std::string> f = F; std::swap(f[6], f[7]); eval_keytext(K, sec, join(f, '|'), "structure", "p and q swapped", false); }
	for (size_t i = 1; i < isig + 3; i++) { if (!full && i != 1 && i != 4 && i != 5 && i != inz && i != isig + 2) continue; std::vector<std::string> f = F; f.erase(f.begin() + i); eval_keytext(K, sec, join(f, '|'), "structure", "field deleted: " + fname(i), !(sec && (i == 6 || i == 7))); }
	// nizk: ^-separated sub-fields
	{ std::vector<std::string> N = split(F[inz], '^');   // {"nzk", s1, v.., s2, v.., s3, v.., ""}
	  auto withn = [&](const std::vector<std::string> &n) { return with(inz, join(n, '^')); };
	  std::vector<size_t> cnt_idx; size_t s1 = 0, s2 = 0, s3 = 0;
	  if (K.spec.nizk) { s1 = TMCG_KEY_NIZK_STAGE1; s2 = TMCG_KEY_NIZK_STAGE2; s3 = TMCG_KEY_NIZK_STAGE3; }
	  if (N.size() != 4 + s1 + s2 + s3 + 1) { violation("C10/key/malformed-nizk", "exported nizk text has an unexpected number of fields", J().kv("fields", (long long)N.size()).kv("nizk", shorten(F[inz], 200)).str()); }
	  else {
		cnt_idx = {1, 2 + s1, 3 + s1 + s2};
		for (auto &mu : str_muts(N[0], r, true)) { auto n = N; n[0] = mu.text; eval_keytext(K, sec, withn(n), "nizk:magic", mu.name); }
		for (size_t c = 0; c < 3; c++) { size_t ix = cnt_idx[c]; unsigned long v = strtoul(N[ix].c_str(), 0, 10);
			for (auto &p : std::vector<std::pair<std::string, std::string>>{{"count-1", std::to_string(v - 1)}, {"count+1", std::to_string(v + 1)}, {"0", "0"}, {"1", "1"}, {"empty", ""}, {"leading zero", "0" + N[ix]}, {"non-digit", N[ix] + "x"}}) { auto n = N; n[ix] = p.second; eval_keytext(K, sec, withn(n), "nizk:stage" + std::to_string(c + 1) + "-count", p.first); }
			{ auto n = N; n.erase(n.begin() + ix); eval_keytext(K, sec, withn(n), "nizk:stage" + std::to_string(c + 1) + "-count", "field deleted"); } }
		{ auto n = N; n.pop_back(); eval_keytext(K, sec, withn(n), "nizk:structure", "last ^ dropped"); }
		eval_keytext(K, sec, with(inz, ""), "nizk", "empty"); eval_keytext(K, sec, with(inz, F[inz] + "1^"), "nizk:structure", "value appended");
		// proof values: positions (first, last of each stage | all) x catalogue
		std::vector<size_t> pos;
		for (size_t st = 0; st < 3 && K.spec.nizk; st++) { size_t lo = cnt_idx[st] + 1, n = st == 0 ? s1 : st == 1 ? s2 : s3; for (size_t k = 0; k < n; k++) if (full || k == 0 || k == n - 1 || k == r.below(n)) pos.push_back(lo + k); }
		for (size_t ix : pos) { int st = ix < cnt_idx[1] ? 1 : ix < cnt_idx[2] ? 2 : 3; std::string fld = "nizk:stage" + std::to_string(st) + "-value";
			for (auto &mu : int_muts(N[ix], K.sk->m, r, full, false)) { auto n = N; n[ix] = mu.text; eval_keytext(K, sec, withn(n), fld, mu.name + " @" + std::to_string(ix)); }
			{ Z v, t; parse62(v, N[ix]); mpz_sub(t, K.sk->m, v); auto n = N; n[ix] = mpz_b62(t); eval_keytext(K, sec, withn(n), fld, "m-v @" + std::to_string(ix)); }    // covered by the self-signature: a tamper
			{ auto n = N; n.erase(n.begin() + ix); eval_keytext(K, sec, withn(n), fld, "field deleted @" + std::to_string(ix)); }
			if (ix + 1 < N.size() - 1) { auto n = N; std::swap(n[ix], n[ix + 1]); if (n != N) eval_keytext(K, sec, withn(n), fld, "swapped with next @" + std::to_string(ix)); }
			count("nizk_value_positions_plain"); }
	  } }
	// self-signature
	for (auto &mu : str_muts(F[isig], r, true)) eval_keytext(K, sec, with(isig, mu.text), "sig-magic", mu.name);
	for (auto &mu : str_muts(F[isig + 1], r, true)) eval_keytext(K, sec, with(isig + 1, mu.text), "sig-keyid", mu.name);
	for (auto &mu : int_muts(F[isig + 2], K.sk->m, r, true, cheap_equiv)) eval_keytext(K, sec, with(isig + 2, mu.text), "sig-value", mu.name);   // -v, m-v ... change the key id (tail of the text): tamper
	eval_keytext(K, sec, orig.substr(0, orig.size() - 1), "structure", "last delimiter dropped"); eval_keytext(K, sec, "", "structure", "empty text");
	if (cheap_equiv || K.spec.bits <= 700) eval_keytext(K, sec, orig + "x", "structure", "text after last delimiter");
	count(sec ? "sec_key_tamper_sets" : "pub_key_tamper_sets");
}

// keys re-signed by their owner: fewer rounds, altered proof values, y outside Z°
static void case_resigned(KeyEnt &K, Rng &r, int block, int nblocks) {
	bool full = ctx.thorough(); Z t;
	if (block == 0) {
		// y with Jacobi symbol -1 (never a valid non-residue for the encoding)
		mpz_set(t, K.sk->y); do mpz_add_ui(t, t, 1); while (mpz_jacobi(t, K.sk->m) != -1);
		std::string nz = K.sk->nizk; std::string pub = resign(*K.sk, nz, t, r);
		if (pub.empty()) count("resign_failed"); else eval_resigned(K, pub, "y", "Jacobi symbol -1, re-signed", true, "resigned-invalid-accepted/y-jacobi");
		// control: the unmodified key re-signed is a valid key
		pub = resign(*K.sk, nz, K.sk->y, r); if (pub.empty()) count("resign_failed"); else { int a = eval_resigned(K, pub, "control", "unchanged, re-signed", false, ""); if (a) count("resign_control_ok"); }
	}
	if (!K.spec.nizk) return;
	Chain C(*K.sk); Proof P0 = make_proof(C, TMCG_KEY_NIZK_STAGE1, TMCG_KEY_NIZK_STAGE2, TMCG_KEY_NIZK_STAGE3);
	if (P0.text() != K.sk->nizk) { count("nizk_replica_mismatch"); return; }
	count("nizk_replica_ok");
	size_t S[3] = {TMCG_KEY_NIZK_STAGE1, TMCG_KEY_NIZK_STAGE2, TMCG_KEY_NIZK_STAGE3};
	if (block == 0) {
		struct V { size_t a, b, c; bool bad; }; std::vector<V> vs;
		for (int st = 0; st < 3; st++) { size_t x[3] = {S[0], S[1], S[2]}; x[st] = S[st] - 1; vs.push_back({x[0], x[1], x[2], true}); x[st] = 1; vs.push_back({x[0], x[1], x[2], true}); if (full) { x[st] = S[st] / 2; vs.push_back({x[0], x[1], x[2], true}); }
			if (K.spec.bits <= 700) { x[st] = S[st] + 1; vs.push_back({x[0], x[1], x[2], false}); } }
		vs.push_back({1, 1, 1, true}); if (full) vs.push_back({S[0] - 1, S[1] - 1, S[2] - 1, true});
		for (auto &v : vs) {
			Proof P = make_proof(C, v.a, v.b, v.c); std::string pub = resign(*K.sk, P.text(), K.sk->y, r); if (pub.empty()) { count("resign_failed"); continue; }
			std::string d = std::to_string(v.a) + "," + std::to_string(v.b) + "," + std::to_string(v.c);
			int a = eval_resigned(K, pub, v.bad ? "fewer-rounds" : "more-rounds", d, v.bad, "resigned-invalid-accepted/fewer-rounds"); if (!v.bad && a) count("resigned_more_rounds_accepted");
		}
		// stage counter 0 with no values
		{ Proof P = make_proof(C, 0, S[1], S[2]); std::string pub = resign(*K.sk, P.text(), K.sk->y, r); if (!pub.empty()) eval_resigned(K, pub, "fewer-rounds", "0," + std::to_string(S[1]) + "," + std::to_string(S[2]), true, "resigned-invalid-accepted/fewer-rounds"); }
	}
	// altered proof values, re-signed: positions of this block
	std::vector<std::pair<int, size_t>> pos;
	for (int st = 0; st < 3; st++) for (size_t k = 0; k < S[st]; k++) { bool pick = (full && K.spec.bits <= 700 && K.spec.id < 17) ? true : (k == 0 || k == S[st] - 1 || (full && K.spec.bits <= 1100 && k % 16 == (size_t)(K.spec.id % 16))); if (pick) pos.push_back({st, k}); }
	for (size_t i = 0; i < pos.size(); i++) {
		if ((int)(i % nblocks) != block) continue;
		int st = pos[i].first; size_t k = pos[i].second;
		std::vector<Mut> ms = int_muts(P0.v[st][k], K.sk->m, r, false, false); ms.pop_back();      // v+1, 2v mod m, 0 (truncate is a text fault, covered above)
		if (!full) { Mut keep = ms[(i + (size_t)block) % ms.size()]; ms.clear(); ms.push_back(keep); }
		// equivalent representation of a root (stage 2, 3): the negated root; control only
		if (st > 0 && K.spec.bits <= 450 && (k == 0)) { Z v; parse62(v, P0.v[st][k]); mpz_sub(v, K.sk->m, v); ms.push_back({"m-v", mpz_b62(v), true}); }
		for (auto &mu : ms) {
			Proof P = P0; P.v[st][k] = mu.text; std::string pub = resign(*K.sk, P.text(), K.sk->y, r); if (pub.empty()) { count("resign_failed"); continue; }
			std::string d = "stage " + std::to_string(st + 1) + " value " + std::to_string(k) + ": " + mu.name;
			int a = eval_resigned(K, pub, mu.maybe_equiv ? "proof-value-equivalent" : "proof-value", d, !mu.maybe_equiv, "resigned-invalid-accepted/proof-value-stage" + std::to_string(st + 1)); (void)a;
			count("nizk_value_positions_resigned");
		}
	}
}

// ------------------------------------------------------------------ main
int main(int argc, char **argv) {
	init(argc, argv); null_cerr();
	if (!init_libTMCG()) { fprintf(stderr, "init_libTMCG failed\n"); return 2; }
	bool quick = ctx.quick();
	unsigned long minS = min_size(false), minE = min_size(true);
	if (!minS || !minE) { fprintf(stderr, "no admissible key size found\n"); return 2; }
	// the sizes just below the minima must violate a precondition (else the search is wrong)
	if (size_pre(minS - 1).sign_ok || (size_pre(minE - 1).sign_ok && size_pre(minE - 1).enc_ok)) { fprintf(stderr, "size search inconsistent\n"); return 2; }
	std::vector<KeySpec> keys; int id = 0;
	auto add = [&](unsigned long b, bool n) { SizePre p = size_pre(b); if (!p.sign_ok) { count("size_excluded_by_sign_precondition"); return; } keys.push_back({b, n, id++}); };
	add(minS, false); add(512, false); add(minE, false); add(768, false); add(1024, false); add(minS, true); add(minE, true); add(1024, true);
	if (!quick) {
		add(2048, false); add(2048, true); add(minS + 1, false); add(minE + 1, false); add(minS + 8, true); add(1025, false); add(minE + 8, false); add(640, false); add(896, true);
		Rng sr = setup_rng(10);
		while (keys.size() < 30) { unsigned long b = minS + sr.below(1100 - minS); SizePre p = size_pre(b); if (!p.sign_ok) { count("size_excluded_by_sign_precondition"); continue; } keys.push_back({b, sr.below(4) == 0 && b < 800, id++}); }
	}
	if (ctx.shard == 0 || ctx.only >= 0) { count("min_keysize_sign", (long long)minS); count("min_keysize_encrypt", (long long)minE); }
	long k = 0;
	// partner ("other") key: same size, no proof
	auto partner = [&](const KeySpec &s) -> KeyEnt & { KeySpec p{s.bits, false, 1000 + s.id}; return get_key(p); };
	for (auto &ks : keys) {
		bool big = ks.bits >= 2048, slow = ks.nizk && ks.bits > 700;
		struct Op { const char *name; int block, nblocks; }; std::vector<Op> ops;
		bool tamper_ops = !quick || !ks.nizk;     // the proof plays no role in sign/verify/encrypt/decrypt: quick uses the plain keys for these
		ops.push_back({"roundtrip", 0, 1});
		if (tamper_ops && !(big && ks.nizk)) { ops.push_back({"sig-tamper", 0, 1}); if (size_pre(ks.bits).enc_ok) ops.push_back({"enc-tamper", 0, 1}); }
		if (!(big && ks.nizk)) ops.push_back({"pubkey-tamper", 0, 1});
		if (tamper_ops && !big) ops.push_back({"seckey-tamper", 0, 1});
		bool sweep = !quick && ks.nizk && ks.bits <= 700 && ks.id < 17;      // every proof value x catalogue, re-signed: the small fixed keys
		int nb = !ks.nizk ? 1 : (quick ? (slow ? 0 : 2) : (big ? 1 : (sweep ? 16 : 2)));
		for (int b = 0; b < nb; b++) ops.push_back({"resigned", b, nb});
		for (auto &op : ops) {
			J d; d.kv("op", op.name).kv("keybits", ks.bits).kv("nizk", ks.nizk).kv("keyidx", ks.id); if (op.nblocks > 1) d.kv("block", op.block);
			long kc = k++;
			if (!case_begin(kc, d.str())) continue;
			Rng r = case_rng(kc, 7); tl_rng = &r; g_evals = 0; g_distinct.clear(); g_sample.clear();
			KeyEnt &K = get_key(ks); std::string o = op.name;
			if (!pre_sign_bits(mpz_sizeinbase(K.sk->m, 2))) violation("C10/harness/size-precondition", "generated modulus violates the predicted size precondition", J().kv("keybits", ks.bits).kv("mbits", (long long)mpz_sizeinbase(K.sk->m, 2)).str());
			if (o == "roundtrip") case_roundtrip(K, r, big ? nullptr : &partner(ks));
			else if (o == "sig-tamper") case_sig_tamper(K, r, big ? nullptr : &partner(ks));
			else if (o == "enc-tamper") case_enc_tamper(K, r, big ? nullptr : &partner(ks));
			else if (o == "pubkey-tamper") case_key_tamper(K, r, false);
			else if (o == "seckey-tamper") case_key_tamper(K, r, true);
			else if (o == "resigned") case_resigned(K, r, op.block, op.nblocks);
			tl_rng = nullptr;
			if (g_sample.empty()) g_sample = J().kv("op", op.name).kv("keybits", ks.bits).kv("nizk", ks.nizk).kv("evaluations", (long long)g_evals).str();
			case_end(d.str(), g_evals > 0, g_sample, g_evals, (long long)g_distinct.size());
		}
	}
	finish();
	return 0;
}
