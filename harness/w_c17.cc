// w_c17.cc — C17: distributed coin flips are common and bound by commitments.
//
// two-party (JareckiLysyanskayaEDCF::Flip_twoparty over vf::TwoParty, both roles):
//   LL   library vs library: both true, equal a, a = a_0 + a_1 mod q with a_i the openings found on
//        the wire (the triple (c,x,y) of a side's lines with g^x h^y = c), trace specification
//        "W(own share) is preceded by R(peer commitment)"; library peer with simulate_faulty_behaviour
//   HP   harness peer (plain GMP) with strategies honest-eager, sequential, withholding, adaptive,
//        copycat (observation), negative representation (observation + sum), mismatching openings,
//        and the C05 dlog catalogue on each of its three lines (also in flight on a library peer)
//        oracles: agreement/sum, ordering by VALUES (the honest share a_h = a - a_peer and its blinding
//        value must not be among the integers written before the peer's commitment was read),
//        binding (every mismatching / mutated peer => false or std::exception)
// n-party (JareckiLysyanskayaEDCF::Flip in SimNet): all honest outputs equal, equal Qual, output =
//   sum over Qual of the committed shares (read from every party's RVSS object at quiescence and
//   checked against the commitment the honest parties hold), a party that opens a wrong share is
//   reconstructed; ordering by values with one slow honest party.
#include "engine.hh"
#include "c17_dlogmut.hh"
#include <algorithm>
#include <memory>
#include <set>

using namespace vf;

struct Z {
	mpz_t v;
	Z() { mpz_init(v); }
	Z(const Z &o) { mpz_init_set(v, o.v); }
	Z &operator=(const Z &o) { if (this != &o) mpz_set(v, o.v); return *this; }
	~Z() { mpz_clear(v); }
};
struct Group { Z p, q, g, h; unsigned long fs = 512, gs = 160; std::string name; };
static const char *const MUTID[dlogmut::NMUT] = {"v+1", "v*g", "-v", "0", "1", "p-1", "p", "q", "v+q", "v+p", "oversized", "p-v", "swap", "delete", "droplast", "empty"};
static const char *const LINE[3] = {"commitment", "opening-a", "opening-hat-a"};

static Group make_group(unsigned long fs, unsigned long gs, uint64_t lane) {
	Group G; G.fs = fs; G.gs = gs; G.name = std::to_string(fs) + "/" + std::to_string(gs);
	Rng r = setup_rng(lane); tl_rng = &r;
	BarnettSmartVTMF_dlog *v = new BarnettSmartVTMF_dlog(fs, gs, true, true);
	v->KeyGenerationProtocol_GenerateKey(); v->KeyGenerationProtocol_Finalize();
	mpz_set(G.p.v, v->p); mpz_set(G.q.v, v->q); mpz_set(G.g.v, v->g); mpz_set(G.h.v, v->h);
	delete v;
	JareckiLysyanskayaEDCF e(2, 0, G.p.v, G.q.v, G.g.v, G.h.v, fs, gs);
	if (!e.CheckGroup()) violation("C17/setup/CheckGroup", "generated group refused", J().kv("group", G.name).str());
	tl_rng = nullptr;
	return G;
}
static JareckiLysyanskayaEDCF *edcf(const Group &G, size_t n, size_t t) { return new JareckiLysyanskayaEDCF(n, t, G.p.v, G.q.v, G.g.v, G.h.v, G.fs, G.gs); }
static J group_json(const Group &G) { J j; j.kz("p", G.p.v).kz("q", G.q.v).kz("g", G.g.v).kz("h", G.h.v); return j; }
static bool parse62(Z &o, const std::string &s) { return !s.empty() && mpz_set_str(o.v, s.c_str(), 62) == 0; }
static void commit(Z &c, mpz_srcptr a, mpz_srcptr ah, const Group &G) { Z t, u; mpz_powm(t.v, G.g.v, a, G.p.v); mpz_powm(u.v, G.h.v, ah, G.p.v); mpz_mul(c.v, t.v, u.v); mpz_mod(c.v, c.v, G.p.v); }
static std::string events_json(const std::vector<Ev> &log, size_t maxn = 40) {
	std::vector<std::string> v; for (auto &e : log) { if (v.size() >= maxn) break; v.push_back(std::to_string(e.side) + e.kind + ":" + shorten(e.text, 60)); }
	return J().arr("events", v).str();
}

// ------------------------------------------------------------------ transcript analysis (values, not positions)
// integers written by `side` before event index `upto`
static std::vector<Z> written_before(const std::vector<Ev> &log, int side, size_t upto) {
	std::vector<Z> v; for (size_t i = 0; i < log.size() && i < upto; i++) if (log[i].side == side && log[i].kind == 'W') { Z z; if (parse62(z, log[i].text)) v.push_back(z); }
	return v;
}
static size_t first_event(const std::vector<Ev> &log, int side, char kind) { for (size_t i = 0; i < log.size(); i++) if (log[i].side == side && log[i].kind == kind) return i; return log.size(); }
static bool contains(const std::vector<Z> &v, mpz_srcptr x) { for (auto &z : v) if (!mpz_cmp(z.v, x)) return true; return false; }
// a valid opening among a set of integers: (c, x, y) with 0 <= x,y < q and g^x h^y = c
static bool find_opening(const std::vector<Z> &v, const Group &G, Z &c, Z &x, Z &y) {
	Z t;
	for (size_t i = 0; i < v.size(); i++) for (size_t j = 0; j < v.size(); j++) {
		if (i == j) continue;
		if (mpz_sgn(v[i].v) < 0 || mpz_sgn(v[j].v) < 0 || mpz_cmp(v[i].v, G.q.v) >= 0 || mpz_cmp(v[j].v, G.q.v) >= 0) continue;
		commit(t, v[i].v, v[j].v, G);
		for (size_t k = 0; k < v.size(); k++) if (k != i && k != j && !mpz_cmp(v[k].v, t.v)) { c = v[k]; x = v[i]; y = v[j]; return true; }
	}
	return false;
}

// ------------------------------------------------------------------ one library side
struct LibSide {
	int ret = -1; Z a; bool exc = false, other = false; std::string what, err;
	Z share, blind, Cown, Cpeer;     // RVSS state read at quiescence
};
static void read_state(LibSide &s, JareckiLysyanskayaEDCF *e, size_t role) {
	mpz_set(s.share.v, e->rvss->a_i); mpz_set(s.blind.v, e->rvss->hata_i);
	mpz_set(s.Cown.v, e->rvss->C_ik[role][0]); mpz_set(s.Cpeer.v, e->rvss->C_ik[1 - role][0]);
}
static void task_state(LibSide &s, Task *t) { s.exc = t->threw_std; s.other = t->threw_other; s.what = t->exc; }

// ordering, general value form: no write of `side` that precedes its first read carries its share
// or blinding value (the first thing a side reads is what it takes as the peer's commitment)
static bool reveals_before_first_read(const std::vector<Ev> &log, int side, const LibSide &s, std::string &which) {
	size_t fr = first_event(log, side, 'R');
	std::vector<Z> W = written_before(log, side, fr);
	if (contains(W, s.share.v)) { which = "share a_i"; return true; }
	if (contains(W, s.blind.v)) { which = "blinding value hat-a_i"; return true; }
	return false;
}

// ------------------------------------------------------------------ LL: library vs library
struct Counter { long long evals = 0; std::set<std::string> distinct; std::string sample; uint64_t run = 0; };

static void check_common(const char *part, const LibSide &s, bool hung, const std::string &wit) {
	if (s.other) violation(std::string("C17/crash/non-std-exception/") + part, "a non-standard exception escaped Flip_twoparty", wit);
	if (hung) violation(std::string("C17/hang/") + part, "two-party flip did not terminate", wit);
}

static void run_ll(const Group &G, long k, size_t role0, int flips, Counter &C) {
	std::unique_ptr<JareckiLysyanskayaEDCF> e0(edcf(G, 2, 0)), e1(edcf(G, 2, 0));
	for (int f = 0; f < flips; f++) {      // the library re-uses one EDCF object for consecutive flips (GrothVSSHE)
		LibSide s[2]; size_t role[2] = {role0, 1 - role0};
		TwoParty tp(ctx.seed, (uint64_t)k * 1000003ULL + C.run++);
		tp.run([&](std::istream &in, std::ostream &out) { std::stringstream err; s[0].ret = e0->Flip_twoparty(role[0], s[0].a.v, in, out, err) ? 1 : 0; s[0].err = err.str(); },
		       [&](std::istream &in, std::ostream &out) { std::stringstream err; s[1].ret = e1->Flip_twoparty(role[1], s[1].a.v, in, out, err) ? 1 : 0; s[1].err = err.str(); });
		task_state(s[0], tp.task(0)); task_state(s[1], tp.task(1)); read_state(s[0], e0.get(), role[0]); read_state(s[1], e1.get(), role[1]);
		const std::vector<Ev> &log = tp.d.log;
		J w = group_json(G); w.kv("part", "lib-vs-lib").kv("role_of_side0", (long long)role0).kv("flip_no", f).kv("ret0", s[0].ret).kv("ret1", s[1].ret).kz("a0", s[0].a.v).kz("a1", s[1].a.v).raw("transcript", events_json(log));
		count("ll_runs"); count(role0 == 0 ? "ll_side0_role0" : "ll_side0_role1");
		for (int i = 0; i < 2; i++) check_common("lib-vs-lib", s[i], tp.s.hung, w.str());
		if (s[0].ret != 1 || s[1].ret != 1) { violation("C17/complete/honest-flip-failed", "Flip_twoparty between two honest library parties did not return true at both", w.str()); continue; }
		C.evals++;
		if (mpz_cmp(s[0].a.v, s[1].a.v)) violation("C17/agreement/outputs-differ", "the two honest parties output different coin values", w.str());
		// openings on the wire
		Z c[2], x[2], y[2]; bool ok = true;
		for (int i = 0; i < 2; i++) { std::vector<Z> W = written_before(log, i, log.size()); if (!find_opening(W, G, c[i], x[i], y[i])) ok = false; }
		if (!ok) { violation("C17/binding/honest-opening-does-not-match-commitment", "an honest side wrote no (commitment, a, hat-a) with g^a h^hat-a = commitment", w.str()); continue; }
		Z sum; mpz_add(sum.v, x[0].v, x[1].v); mpz_mod(sum.v, sum.v, G.q.v); C.evals++;
		if (mpz_cmp(sum.v, s[0].a.v) || mpz_cmp(sum.v, s[1].a.v)) { J ww = w; ww.kz("wire_a0", x[0].v).kz("wire_a1", x[1].v).kz("sum", sum.v); violation("C17/sum/output-not-sum-of-openings", "coin value differs from the sum mod q of the two openings on the wire", ww.str()); }
		else count("ll_sum_ok");
		for (int i = 0; i < 2; i++) {
			C.evals++;
			if (mpz_cmp(x[i].v, s[i].share.v) || mpz_cmp(c[i].v, s[i].Cown.v) || mpz_cmp(c[1 - i].v, s[i].Cpeer.v)) { J ww = w; ww.kv("side", i); violation("C17/sum/state-differs-from-wire", "share/commitments held in the RVSS object differ from the values on the wire", ww.str()); }
			// trace specification: W(own share) must be preceded by R(peer's commitment)
			size_t iw = log.size(), ir = log.size(); Z v;
			for (size_t e = 0; e < log.size(); e++) {
				if (log[e].side != i || !parse62(v, log[e].text)) continue;
				if (log[e].kind == 'W' && iw == log.size() && (!mpz_cmp(v.v, x[i].v) || !mpz_cmp(v.v, y[i].v))) iw = e;
				if (log[e].kind == 'R' && ir == log.size() && !mpz_cmp(v.v, c[1 - i].v)) ir = e;
			}
			C.evals++;
			if (iw < ir) { J ww = w; ww.kv("side", i).kv("write_event", (long long)iw).kv("read_event", (long long)ir); violation("C17/ordering/opening-written-before-peer-commitment-read", "a party wrote its share before it had read the peer's commitment", ww.str()); }
			else count("ll_ordering_ok");
		}
		C.distinct.insert("ll/" + mpz_dec(s[0].a.v));
		if (C.sample.empty()) C.sample = J().kv("part", "lib-vs-lib").kv("role_of_side0", (long long)role0).kz("a", s[0].a.v).kz("wire_a0", x[0].v).kz("wire_a1", x[1].v).kv("both_true", true).str();
	}
}

// library peer with simulate_faulty_behaviour (commitment + 1, share + 1)
static void run_ll_faulty(const Group &G, long k, size_t role0, Counter &C) {
	std::unique_ptr<JareckiLysyanskayaEDCF> e0(edcf(G, 2, 0)), e1(edcf(G, 2, 0));
	LibSide s[2];
	TwoParty tp(ctx.seed, (uint64_t)k * 1000003ULL + C.run++);
	tp.run([&](std::istream &in, std::ostream &out) { std::stringstream err; s[0].ret = e0->Flip_twoparty(role0, s[0].a.v, in, out, err) ? 1 : 0; },
	       [&](std::istream &in, std::ostream &out) { std::stringstream err; s[1].ret = e1->Flip_twoparty(1 - role0, s[1].a.v, in, out, err, true) ? 1 : 0; });
	task_state(s[0], tp.task(0)); read_state(s[0], e0.get(), role0);
	J w = group_json(G); w.kv("part", "lib-faulty-peer").kv("role_of_side0", (long long)role0).kv("ret0", s[0].ret).kz("a0", s[0].a.v).raw("transcript", events_json(tp.d.log));
	check_common("lib-faulty-peer", s[0], tp.s.hung, w.str());
	C.evals++; count("ll_faulty_peer_runs");
	if (s[0].ret == 1) violation("C17/binding/accepted/library-faulty-peer", "honest side returned true against a peer running with simulate_faulty_behaviour", w.str());
	else count("ll_faulty_peer_refused");
	std::string which;
	if (reveals_before_first_read(tp.d.log, 0, s[0], which)) violation("C17/ordering/share-written-before-anything-read", "honest side wrote its " + which + " before reading anything from the peer", w.str());
	C.distinct.insert("llf/" + std::to_string(role0) + "/" + std::to_string(C.run));
}

// ------------------------------------------------------------------ HP: harness peer
enum { S_EAGER = 0, S_SEQ, S_WITHHOLD, S_ADAPTIVE, S_COPYCAT, S_NEGREP, S_MISMATCH, S_MUTATED, NSTRAT };
static const char *const STRAT[NSTRAT] = {"honest-eager", "honest-sequential", "withholding", "adaptive", "copycat", "negative-representation", "mismatching-opening", "mutated-line"};
static const char *const SHAREKIND[4] = {"random", "0", "1", "q-1"};
static const char *const MISMATCH[8] = {"a+1", "hat-a+1", "fresh-random-pair", "swapped", "a+1,hat-a-1", "opening-of-another-commitment", "withheld-then-a+1", "a-1"};

struct Peer {
	int strat = S_EAGER, variant = 0, sharekind = 0; size_t mline = 0; int mut = 0;
	Z a, ah, C;                 // committed pair and commitment
	Z oa, oah;                  // pair sent as the opening
	std::vector<std::string> sent, got;
	bool applied = true;        // mutation applicable
	bool early = false;         // the honest side had a complete opening on the wire before the peer sent anything
	Z target; bool adapted = false;
	std::vector<Z> W; bool withheld = false; size_t wlines = 0;
};

static void peer_body(TwoParty &tp, const Group &G, Peer &P, std::istream &in, std::ostream &out) {
	Rng &r = cur_rng(); mpz_srcptr q = G.q.v;
	switch (P.sharekind) { case 1: mpz_set_ui(P.a.v, 0); break; case 2: mpz_set_ui(P.a.v, 1); break; case 3: mpz_sub_ui(P.a.v, q, 1); break; default: r.mpz_below(P.a.v, q); }
	r.mpz_below(P.ah.v, q);
	mpz_set_ui(P.target.v, 424242);
	auto send = [&](const std::string &s) { out << s << "\n"; out.flush(); P.sent.push_back(s); };
	auto sendz = [&](const Z &z) { send(mpz_b62(z.v)); };
	auto recv = [&]() -> bool { std::string l; if (!std::getline(in, l)) return false; P.got.push_back(l); return true; };
	auto drain = [&]() { while (P.got.size() < 3 && recv()) {} };
	auto withhold = [&]() {
		// neither read nor write until the honest side blocks for input (or ends)
		Duplex *d = &tp.d; Task *h = tp.task(0);
		tp.s.wait([d, h]() { for (auto &e : d->log) if (e.side == 0 && (e.kind == 'B' || e.kind == 'E')) return true; return h->st == Task::DONE; });
		P.withheld = true;
		size_t fb = first_event(tp.d.log, 0, 'B'); P.W = written_before(tp.d.log, 0, fb); P.wlines = P.W.size();
		Z c, x, y; if (find_opening(P.W, G, c, x, y)) { P.early = true; /* choose the outcome */ mpz_sub(P.a.v, P.target.v, x.v); mpz_mod(P.a.v, P.a.v, q); P.adapted = true; }
	};
	P.oa = P.a; P.oah = P.ah;
	switch (P.strat) {
	case S_EAGER: commit(P.C, P.a.v, P.ah.v, G); sendz(P.C); sendz(P.a); sendz(P.ah); drain(); break;
	case S_SEQ: commit(P.C, P.a.v, P.ah.v, G); sendz(P.C); recv(); sendz(P.a); sendz(P.ah); drain(); break;
	case S_WITHHOLD: withhold(); P.oa = P.a; commit(P.C, P.a.v, P.ah.v, G); sendz(P.C); sendz(P.a); sendz(P.ah); drain(); break;
	case S_ADAPTIVE:
		withhold(); P.oa = P.a; commit(P.C, P.a.v, P.ah.v, G); sendz(P.C);
		if (P.early) { sendz(P.a); sendz(P.ah); drain(); break; }
		// commitment first, then wait for the honest opening and open the share that yields the target
		drain();
		{ Z c, x, y; std::vector<Z> got; for (auto &l : P.got) { Z z; if (parse62(z, l)) got.push_back(z); }
		  if (find_opening(got, G, c, x, y)) { mpz_sub(P.oa.v, P.target.v, x.v); mpz_mod(P.oa.v, P.oa.v, q); if (!mpz_cmp(P.oa.v, P.a.v)) mpz_add_ui(P.oa.v, P.oa.v, 1); P.adapted = true; }
		  else mpz_add_ui(P.oa.v, P.a.v, 1); }
		sendz(P.oa); sendz(P.oah); break;
	case S_COPYCAT: {
		if (!recv()) break;
		send(P.got[0]); parse62(P.C, P.got[0]);
		if (!recv() || !recv()) break;
		send(P.got[1]); send(P.got[2]); parse62(P.oa, P.got[1]); parse62(P.oah, P.got[2]); P.a = P.oa; P.ah = P.oah; break; }
	case S_NEGREP:
		commit(P.C, P.a.v, P.ah.v, G);
		if (P.variant == 0) mpz_sub(P.oa.v, P.a.v, q); else mpz_sub(P.oah.v, P.ah.v, q);
		sendz(P.C); sendz(P.oa); sendz(P.oah); drain(); break;
	case S_MISMATCH: {
		commit(P.C, P.a.v, P.ah.v, G);
		switch (P.variant) {
		case 0: mpz_add_ui(P.oa.v, P.a.v, 1); mpz_mod(P.oa.v, P.oa.v, q); break;
		case 1: mpz_add_ui(P.oah.v, P.ah.v, 1); mpz_mod(P.oah.v, P.oah.v, q); break;
		case 2: do { r.mpz_below(P.oa.v, q); r.mpz_below(P.oah.v, q); } while (!mpz_cmp(P.oa.v, P.a.v) && !mpz_cmp(P.oah.v, P.ah.v)); break;
		case 3: P.oa = P.ah; P.oah = P.a; if (!mpz_cmp(P.a.v, P.ah.v)) { mpz_add_ui(P.oa.v, P.oa.v, 1); mpz_mod(P.oa.v, P.oa.v, q); } break;
		case 4: mpz_add_ui(P.oa.v, P.a.v, 1); mpz_mod(P.oa.v, P.oa.v, q); mpz_sub_ui(P.oah.v, P.ah.v, 1); mpz_mod(P.oah.v, P.oah.v, q); break;
		case 5: do { r.mpz_below(P.oa.v, q); } while (!mpz_cmp(P.oa.v, P.a.v)); r.mpz_below(P.oah.v, q); break;   // a valid opening of some other commitment
		case 6: withhold(); mpz_add_ui(P.oa.v, P.a.v, 1); mpz_mod(P.oa.v, P.oa.v, q); P.oah = P.ah; commit(P.C, P.a.v, P.ah.v, G); break;
		case 7: mpz_sub_ui(P.oa.v, P.a.v, 1); mpz_mod(P.oa.v, P.oa.v, q); break;
		}
		sendz(P.C); sendz(P.oa); sendz(P.oah); drain(); break; }
	case S_MUTATED: {
		commit(P.C, P.a.v, P.ah.v, G);
		std::vector<std::string> l = {mpz_b62(P.C.v), mpz_b62(P.a.v), mpz_b62(P.ah.v)};
		P.applied = dlogmut::apply(l, P.mline, P.mut, G.p.v, G.q.v, G.g.v);
		if (!P.applied) break;
		for (auto &s : l) send(s);
		drain(); break; }
	}
}

static void run_hp(const Group &G, long k, size_t role, Peer &P, Counter &C) {
	std::unique_ptr<JareckiLysyanskayaEDCF> e0(edcf(G, 2, 0));
	LibSide s;
	TwoParty tp(ctx.seed, (uint64_t)k * 1000003ULL + C.run++);
	tp.run([&](std::istream &in, std::ostream &out) { std::stringstream err; s.ret = e0->Flip_twoparty(role, s.a.v, in, out, err) ? 1 : 0; s.err = err.str(); },
	       [&](std::istream &in, std::ostream &out) { peer_body(tp, G, P, in, out); });
	if (!P.applied) { count("hp_mutation_skipped_equal_or_na"); return; }
	task_state(s, tp.task(0)); read_state(s, e0.get(), role);
	const std::vector<Ev> &log = tp.d.log; mpz_srcptr q = G.q.v;
	std::string sname = STRAT[P.strat];
	std::string cls = P.strat == S_MISMATCH ? std::string("mismatch:") + MISMATCH[P.variant] : P.strat == S_MUTATED ? std::string("mutated:") + LINE[P.mline] + ":" + MUTID[P.mut] : sname;
	J w = group_json(G); w.kv("part", "harness-peer").kv("honest_role", (long long)role).kv("strategy", cls).kv("peer_share_kind", SHAREKIND[P.sharekind]).kv("honest_ret", s.ret).kv("honest_exception", s.what).kz("honest_output", s.a.v)
	    .kz("peer_committed_a", P.a.v).kz("peer_committed_hat_a", P.ah.v).kz("peer_commitment", P.C.v).kz("peer_opened_a", P.oa.v).kz("peer_opened_hat_a", P.oah.v).arr("peer_sent", P.sent).arr("peer_got", P.got).raw("transcript", events_json(log));
	count("hp_runs"); count("hp_" + sname); count(role == 0 ? "hp_honest_role0" : "hp_honest_role1");
	check_common("harness-peer", s, tp.s.hung, w.str());
	if (tp.task(1)->threw_std || tp.task(1)->threw_other) violation("C17/harness/peer-exception", "harness peer threw: " + tp.task(1)->exc, w.str());

	// ---- ordering (every strategy): nothing written before the first read carries the share
	std::string which; C.evals++;
	if (reveals_before_first_read(log, 0, s, which)) violation("C17/ordering/share-written-before-anything-read", "honest side wrote its " + which + " before reading anything from the peer", w.str());
	else count("hp_ordering_general_ok");

	// withholding peer: what the honest side holds as its share must not be among the integers it had
	// written when it first blocked (also when the run later ends in a refusal)
	if (P.withheld) {
		C.evals++;
		if (contains(P.W, s.share.v) || contains(P.W, s.blind.v)) violation("C17/ordering/share-on-wire-before-peer-commitment", "the honest share (RVSS state) was on the wire when the honest side first blocked for the withheld commitment", w.str());
		else count("hp_withheld_state_share_not_in_W");
	}
	bool expect_accept = P.strat == S_EAGER || P.strat == S_SEQ || P.strat == S_WITHHOLD || (P.strat == S_ADAPTIVE && P.early);
	bool expect_refuse = P.strat == S_MISMATCH || P.strat == S_MUTATED || (P.strat == S_ADAPTIVE && !P.early);
	bool observe_only = P.strat == S_COPYCAT || P.strat == S_NEGREP;

	if (expect_refuse) {
		C.evals++;
		if (s.ret == 1) {
			std::string key = P.strat == S_MUTATED ? std::string("C17/binding/accepted/mutated/") + LINE[P.mline] + "/" + MUTID[P.mut] : P.strat == S_ADAPTIVE ? "C17/binding/accepted/adaptive-opening" : std::string("C17/binding/accepted/mismatch/") + MISMATCH[P.variant];
			if (P.strat == S_ADAPTIVE && !mpz_cmp(s.a.v, P.target.v)) w.kv("peer_chose_the_outcome", true);
			violation(key, "honest side returned true although the peer's opening does not match its commitment / a line was mutated", w.str());
		} else { count("hp_refused"); if (P.strat == S_MUTATED) { count(std::string("mut_") + MUTID[P.mut]); count(std::string("mutline_") + LINE[P.mline]); } if (P.strat == S_MISMATCH) count("hp_mismatch_refused"); if (s.exc) count("hp_refused_by_std_exception"); }
	}
	if (expect_accept || observe_only) {
		if (expect_accept && s.ret != 1) { violation("C17/complete/honest-peer-refused/" + sname, "honest side refused a peer that follows the protocol", w.str()); }
		if (s.ret == 1) {
			// the honest share on the wire (value based) and the sum
			Z c, x, y; std::vector<Z> W = written_before(log, 0, log.size());
			if (!find_opening(W, G, c, x, y)) violation("C17/binding/honest-opening-does-not-match-commitment", "the honest side wrote no (commitment, a, hat-a) with g^a h^hat-a = commitment", w.str());
			else {
				Z sum, ah; mpz_add(sum.v, x.v, P.oa.v); mpz_mod(sum.v, sum.v, q); C.evals++;
				if (mpz_cmp(sum.v, s.a.v)) { J ww = w; ww.kz("honest_wire_share", x.v).kz("expected_sum", sum.v); violation("C17/sum/output-not-sum-of-openings", "coin value differs from (honest opening + peer opening) mod q", ww.str()); }
				else count("hp_sum_ok");
				if (mpz_cmp(x.v, s.share.v) || mpz_cmp(y.v, s.blind.v)) violation("C17/sum/state-differs-from-wire", "share held in the RVSS object differs from the opening on the wire", w.str());
				// the peer's own view: sum of what it read and what it opened
				std::vector<Z> got; for (auto &l : P.got) { Z z; if (parse62(z, l)) got.push_back(z); }
				Z c2, x2, y2;
				if (expect_accept) {
					C.evals++;
					if (!find_opening(got, G, c2, x2, y2)) violation("C17/agreement/peer-received-no-valid-opening", "the peer did not receive a (commitment, a, hat-a) from the honest side that matches", w.str());
					else { mpz_add(sum.v, x2.v, P.oa.v); mpz_mod(sum.v, sum.v, q); if (mpz_cmp(sum.v, s.a.v)) violation("C17/agreement/outputs-differ", "the value the peer computes differs from the honest output", w.str()); else count("hp_agreement_ok"); }
				}
				// withholding peer, DESIGN formulation: a_h = a - a_peer mod q must not be in W
				if (P.withheld) {
					mpz_sub(ah.v, s.a.v, P.oa.v); mpz_mod(ah.v, ah.v, q); C.evals++;
					J ww = w; ww.kz("a_h", ah.v).kv("integers_written_before_block", (long long)P.wlines);
					if (contains(P.W, ah.v)) violation("C17/ordering/share-on-wire-before-peer-commitment", "the honest share a_h = a - a_peer was on the wire when the honest side first blocked for the withheld commitment", ww.str());
					else if (contains(P.W, s.blind.v)) violation("C17/ordering/blinding-on-wire-before-peer-commitment", "the honest blinding value was on the wire before the withheld commitment was sent", ww.str());
					else { count("hp_withheld_share_not_in_W"); count("hp_withheld_W_integers", (long long)P.wlines); }
					if (P.early && !mpz_cmp(s.a.v, P.target.v)) violation("C17/ordering/peer-chose-the-outcome", "the adaptive peer saw the honest opening before committing and forced the coin to its target value", ww.str());
				}
				if (P.strat == S_COPYCAT) count("obs_copycat_accepted");
				if (P.strat == S_NEGREP) { count("obs_negative_representation_accepted"); if (mpz_sgn(s.a.v) < 0 || mpz_cmp(s.a.v, q) >= 0) violation("C17/sum/output-out-of-range", "coin value outside [0,q)", w.str()); }
			}
		} else if (observe_only) count(P.strat == S_COPYCAT ? "obs_copycat_refused" : "obs_negative_representation_refused");
	}
	C.distinct.insert(cls + "/" + std::to_string(role) + "/" + SHAREKIND[P.sharekind]);
	if (C.sample.empty() || (P.strat == S_WITHHOLD && C.sample.find("withholding") == std::string::npos))
		C.sample = J().kv("part", "harness-peer").kv("honest_role", (long long)role).kv("strategy", cls).kv("honest_ret", s.ret).kz("output", s.a.v).kz("peer_opened_a", P.oa.v).kv("integers_written_before_first_block", (long long)P.wlines).str();
}

// MITM: library peer whose line k is mutated in flight; the side-0 verdict is judged
static void run_mitm(const Group &G, long k, size_t role0, size_t line, int mut, Counter &C) {
	std::unique_ptr<JareckiLysyanskayaEDCF> e0(edcf(G, 2, 0)), e1(edcf(G, 2, 0));
	LibSide s[2]; bool applied = false; std::string held; std::vector<std::string> delivered;
	TwoParty tp(ctx.seed, (uint64_t)k * 1000003ULL + C.run++);
	tp.d.B.relay = [&](size_t idx, const std::string &text) -> std::vector<std::string> {
		std::vector<std::string> o;
		if (mut == dlogmut::SWAP_NEXT) {
			if (idx == line) { held = text; return o; }
			if (idx == line + 1) { o.push_back(text); o.push_back(held); if (text != held) applied = true; }
			else o.push_back(text);
		} else if (idx == line) {
			std::vector<std::string> l = {text};
			if (dlogmut::apply(l, 0, mut, G.p.v, G.q.v, G.g.v)) { applied = true; o = l; } else o.push_back(text);
		} else o.push_back(text);
		for (auto &x : o) delivered.push_back(x);
		return o;
	};
	tp.run([&](std::istream &in, std::ostream &out) { std::stringstream err; s[0].ret = e0->Flip_twoparty(role0, s[0].a.v, in, out, err) ? 1 : 0; },
	       [&](std::istream &in, std::ostream &out) { std::stringstream err; s[1].ret = e1->Flip_twoparty(1 - role0, s[1].a.v, in, out, err) ? 1 : 0; });
	if (!applied) { count("mitm_mutation_skipped_equal_or_na"); return; }
	task_state(s[0], tp.task(0)); read_state(s[0], e0.get(), role0);
	J w = group_json(G); w.kv("part", "mitm-on-library-peer").kv("honest_role", (long long)role0).kv("line", LINE[line]).kv("mutation", dlogmut::NAME[mut]).kv("honest_ret", s[0].ret).kv("honest_exception", s[0].what).kz("honest_output", s[0].a.v).arr("delivered_to_honest", delivered).raw("transcript", events_json(tp.d.log));
	check_common("mitm", s[0], tp.s.hung, w.str());
	C.evals++; count("mitm_runs");
	if (s[0].ret == 1) violation(std::string("C17/binding/accepted/mutated/") + LINE[line] + "/" + MUTID[mut], "honest side returned true although a line of the peer was mutated in flight", w.str());
	else { count("mitm_refused"); count(std::string("mut_") + MUTID[mut]); count(std::string("mutline_") + LINE[line]); }
	std::string which;
	if (reveals_before_first_read(tp.d.log, 0, s[0], which)) violation("C17/ordering/share-written-before-anything-read", "honest side wrote its " + which + " before reading anything from the peer", w.str());
	C.distinct.insert(std::string("mitm/") + LINE[line] + "/" + MUTID[mut] + "/" + std::to_string(role0));
}

static void part_twoparty(long &kc, const Group &G, int scale) {
	// LL
	for (size_t role0 = 0; role0 < 2; role0++) for (int b = 0; b < 2 * scale; b++) {
		J d; d.kv("part", "lib-vs-lib").kv("role_of_side0", (long long)role0).kv("batch", b).kv("group", G.name);
		long k = kc++; if (!case_begin(k, d.str())) continue;
		Counter C;
		for (int i = 0; i < 6; i++) run_ll(G, k, role0, i % 3 == 2 ? 3 : 1, C);
		for (int i = 0; i < 2; i++) run_ll_faulty(G, k, role0, C);
		case_end(d.str(), C.evals > 0, C.sample, C.evals, (long long)C.distinct.size());
	}
	// HP strategies that follow (or only observe) the protocol, and mismatching openings
	for (size_t role = 0; role < 2; role++) for (int strat = 0; strat <= S_MISMATCH; strat++) for (int b = 0; b < scale; b++) {
		J d; d.kv("part", "harness-peer").kv("honest_role", (long long)role).kv("strategy", STRAT[strat]).kv("batch", b).kv("group", G.name);
		long k = kc++; if (!case_begin(k, d.str())) continue;
		Counter C;
		int nvar = strat == S_MISMATCH ? 8 : strat == S_NEGREP ? 2 : 1;
		for (int var = 0; var < nvar; var++) for (int sk = 0; sk < 4; sk++) for (int rep = 0; rep < (strat == S_MISMATCH ? 1 : 2); rep++) {
			Peer P; P.strat = strat; P.variant = var; P.sharekind = sk; run_hp(G, k, role, P, C);
		}
		case_end(d.str(), C.evals > 0, C.sample, C.evals, (long long)C.distinct.size());
	}
	// catalogue: harness peer and MITM on a library peer, every line x every mutation
	for (size_t role = 0; role < 2; role++) for (int how = 0; how < 2; how++) for (size_t line = 0; line < 3; line++) for (int b = 0; b < scale; b++) {
		J d; d.kv("part", how ? "mitm-on-library-peer" : "harness-peer-mutated").kv("honest_role", (long long)role).kv("line", LINE[line]).kv("batch", b).kv("group", G.name);
		long k = kc++; if (!case_begin(k, d.str())) continue;
		Counter C;
		for (int m = 0; m < dlogmut::NMUT; m++) for (int rep = 0; rep < 2; rep++) {
			if (how == 0) { Peer P; P.strat = S_MUTATED; P.mline = line; P.mut = m; P.sharekind = (rep && m % 4 == 0) ? 1 + (m / 4) % 3 : 0; run_hp(G, k, role, P, C); }
			else run_mitm(G, k, role, line, m, C);
		}
		case_end(d.str(), C.evals > 0, C.sample, C.evals, (long long)C.distinct.size());
	}
}

// ------------------------------------------------------------------ n-party in SimNet
// scripted deviation (party `dev` runs the honest code, its endpoints deviate): first private message to `victim` +1 (a wrong
// sub-share) and/or the payload of its `alter_k`-th own reliable broadcast +1 (k enumerated over the whole flip: commitments,
// end markers, answers, opening).  The combination "wrong sub-share, honest answer to the complaint, mismatching opening" is the
// multi-step deviation behind seeded change c17_adjusted_share_swapped_indices.
struct Scn { size_t n = 2, t = 0; std::vector<int> faulty, silent; int slow = -1; long D = 0; bool jitter = false; double preempt = 0.0; std::string label;
	int dev = -1, victim = -1; long alter_k = 0;
	// 3t < n: inside the resilience bound of the reliable broadcast (it prints a warning otherwise).  Beyond it every
	// delivery needs the r-ready of *all* parties, and a party that already waits in a unicast Receive does not serve
	// the broadcast: completion then depends on the schedule, so only safety is judged there.
	bool within_rbc_bound() const { return 3 * t < n; } };
struct SentMsg { size_t from; long at; Z v; int net; };

class DevUni : public SimUnicast {   // private links of the deviating party
public:
	int victim = -1; long cnt = 0; bool fired = false;
	DevUni(size_t n_, size_t j_, Net *nt, size_t sched, time_t to) : SimUnicast(n_, j_, nt, sched, to) {}
	bool Send(mpz_srcptr m, const size_t i, time_t to) override {
		if ((int)i == victim && cnt++ == 0) { Z w; mpz_add_ui(w.v, m, 1UL); fired = true; return SimUnicast::Send(w.v, i, to); }
		return SimUnicast::Send(m, i, to);
	}
	bool Send(const std::vector<mpz_srcptr> &m, const size_t i, time_t to) override { return SimUnicast::Send(m, i, to); }
};
class DevBc : public SimUnicast {    // broadcast-layer endpoint: own broadcast = r-send tuple (ID, j, s, 1, payload), new (ID, s) = new broadcast
public:
	long k = 0, nb = 0; bool fired = false, have_last = false, repl = false; Z last_id, last_s, repl_val;
	DevBc(size_t n_, size_t j_, Net *nt, size_t sched, time_t to) : SimUnicast(n_, j_, nt, sched, to) {}
	bool Send(mpz_srcptr m, const size_t i, time_t to) override { return SimUnicast::Send(m, i, to); }
	bool Send(const std::vector<mpz_srcptr> &m, const size_t i, time_t to) override {
		if (m.size() == 5 && mpz_cmp_ui(m[3], 1UL) == 0 && mpz_cmp_ui(m[1], (unsigned long)j) == 0) {
			bool first = !(have_last && mpz_cmp(m[0], last_id.v) == 0 && mpz_cmp(m[2], last_s.v) == 0);
			if (first) { have_last = true; mpz_set(last_id.v, m[0]); mpz_set(last_s.v, m[2]); repl = false; nb++; if (nb == k && !fired) { fired = true; repl = true; mpz_add_ui(repl_val.v, m[4], 1UL); } }
			if (repl) { std::vector<mpz_srcptr> mm(m); mm[4] = repl_val.v; return SimUnicast::Send(mm, i, to); }
		}
		return SimUnicast::Send(m, i, to);
	}
};

static void run_nparty(const Group &G, long k, const Scn &sc, Counter &C) {
	size_t n = sc.n, t = sc.t;
	g_vtime = 1600000000L;                 // every case starts at the same virtual time (replayable)
	const long t0 = g_vtime; const time_t TO = aiounicast::aio_timeout_middle;
	uint64_t runid = (uint64_t)k * 1000003ULL + C.run++;
	Sched sched(ctx.seed * 0x9e3779b1ULL + runid); sched.use_vclock = true; sched.random_pick = true;
	Net uni(n, &sched), bc(n, &sched); uni.preempt_p = bc.preempt_p = sc.preempt;
	std::vector<bool> isf(n, false), issil(n, false), isdev(n, false); for (int f : sc.faulty) isf[f] = true; for (int f : sc.silent) issil[f] = true;
	if (sc.dev >= 0) isdev[sc.dev] = true;
	bool dev_fired_uni = false, dev_fired_bc = false; long dev_nb = 0;
	Rng jit(ctx.seed, runid, 77);
	long Tw = -1; std::vector<SentMsg> early; std::vector<std::pair<size_t, uint64_t>> late; long long nmsgs = 0;
	// link delays apply to links between different parties only: a party's messages to itself (the broadcast
	// layer sends every r-send/echo/ready to the sender too) are a local pipe in every deployment
	auto fault = [&](size_t from, size_t to, mpz_ptr, long &delay, int &) { if (from == to) return true; if ((int)from == sc.slow) delay = sc.D; else if (sc.jitter && jit.below(4) == 0) delay = (long)jit.below(3); return true; };
	auto onsend = [&](int net) { return [&, net](size_t from, size_t to_, mpz_srcptr v, long at) {
		nmsgs++;
		if (ctx.option("trace", "") == "1") fprintf(stderr, "t=%ld %s %zu->%zu arr=%ld %s\n", g_vtime - t0, net ? "bc" : "uni", from, to_, at - t0, shorten(mpz_b62(v), 12).c_str());
		if ((int)from == sc.slow) { if (to_ != from && (Tw < 0 || at < Tw)) Tw = at; return; }
		if (sc.slow < 0) return;
		if (g_vtime < t0 + sc.D) { SentMsg m; m.from = from; m.at = g_vtime; mpz_set(m.v.v, v); m.net = net; early.push_back(m); }
		else late.push_back(std::make_pair(from, fnv(mpz_dec(v))));
	}; };
	uni.fault = fault; bc.fault = fault; uni.on_send = onsend(0); bc.on_send = onsend(1);
	std::vector<std::unique_ptr<JareckiLysyanskayaEDCF>> ed(n); for (auto &e : ed) e.reset(edcf(G, n, t));
	std::vector<int> ret(n, -1); std::vector<Z> a(n); std::vector<std::string> errs(n);
	Barrier bar(n);
	for (size_t i = 0; i < n; i++) {
		if (issil[i]) { sched.spawn([]() {}, ctx.seed, runid); continue; }      // a crashed party: never sends anything
		sched.spawn([&, i]() {
			DevUni aiou(n, i, &uni, aiounicast::aio_scheduler_roundrobin, TO); DevBc aiou2(n, i, &bc, aiounicast::aio_scheduler_roundrobin, TO);
			if (isdev[i]) { aiou.victim = sc.victim; aiou2.k = sc.alter_k; }
			struct Fin { DevUni &u; DevBc &b; bool on; bool &fu, &fb; long &nb; ~Fin() { if (on) { fu = u.fired; fb = b.fired; nb = b.nb; } } } fin{aiou, aiou2, isdev[i], dev_fired_uni, dev_fired_bc, dev_nb};
			CachinKursawePetzoldShoupRBC rbc(n, t, i, &aiou2, aiounicast::aio_scheduler_roundrobin, TO);
			rbc.setID("C17 coin flip");
			std::stringstream err;
			ret[i] = ed[i]->Flip(i, a[i].v, &aiou, &rbc, err, isf[i]) ? 1 : 0; errs[i] = err.str();
			bar.arrive_and_serve(i, &rbc, &issil);
		}, ctx.seed, runid);
	}
	sched.run();
	// ---- quiescence: read every party's state
	J w = group_json(G); w.kv("part", "n-party").kv("scenario", sc.label).kv("n", (long long)n).kv("t", (long long)t).arrn("faulty", sc.faulty).arrn("silent", sc.silent).kv("slow_party", sc.slow).kv("delay", sc.D).kv("jitter", sc.jitter).arrn("ret", ret)
	    .kv("virtual_seconds", (long long)(g_vtime - t0)).kv("messages", nmsgs).kv("hung", sched.hung);
	{ std::vector<std::string> as, qs; for (size_t i = 0; i < n; i++) { as.push_back(mpz_dec(a[i].v)); std::string q; for (size_t x : ed[i]->rvss->Qual) q += std::to_string(x) + ","; qs.push_back(q); } w.arr("outputs", as).arr("Qual", qs); }
	count("np_runs"); count("np_n" + std::to_string(n)); count("np_messages", nmsgs);
	bool dev = !sc.faulty.empty() || !sc.silent.empty() || sc.dev >= 0;
	if (sc.dev >= 0) { count("np_runs_with_scripted_deviation"); if (dev_fired_uni) count("np_dev_wrong_subshare_sent"); if (dev_fired_bc) count("np_dev_broadcast_altered"); if (sc.alter_k > 0 && !dev_fired_bc) count("np_dev_alter_beyond_last_broadcast");
		count("np_dev_broadcasts_in_flip_n" + std::to_string(n) + "=" + std::to_string(dev_nb)); w.kv("dev_party", sc.dev).kv("dev_victim", sc.victim).kv("dev_alter_k", (long long)sc.alter_k); }
	if (sc.faulty.size()) count("np_runs_with_faulty_party"); if (sc.silent.size()) count("np_runs_with_silent_party"); if (sc.slow >= 0) count("np_runs_with_slow_party"); if (!dev) count("np_runs_all_honest");
	bool broken = false;
	for (size_t i = 0; i < n; i++) { Task *tk = sched.tasks[i]; if (tk->threw_other || tk->threw_std) { J ww = w; ww.kv("party", (long long)i).kv("exception", tk->exc); violation("C17/nparty/exception", "an exception escaped Flip", ww.str()); broken = true; } }
	if (sched.hung) { violation("C17/hang/n-party", "n-party flip did not terminate", w.str()); broken = true; }
	std::vector<size_t> H; for (size_t i = 0; i < n; i++) if (!isf[i] && !issil[i] && !isdev[i]) H.push_back(i);
	if (!sc.within_rbc_bound()) {
		count("np_runs_beyond_broadcast_bound");
		std::vector<size_t> H2; for (size_t i : H) if (ret[i] == 1) H2.push_back(i);
		if (H2.size() != H.size()) count("np_beyond_broadcast_bound_incomplete");
		H = H2;
		if (H.empty()) { C.distinct.insert(sc.label); return; }
	}
	for (size_t i : H) if (ret[i] != 1 && !broken) { J ww = w; ww.kv("party", (long long)i); { std::vector<std::string> lg; for (auto &e : errs) lg.push_back(shorten(e, 1800)); ww.arr("party_logs", lg); } violation(std::string("C17/nparty/honest-flip-failed/") + (sc.silent.size() ? "silent-party" : sc.faulty.size() ? "faulty-party" : sc.slow >= 0 ? "slow-party" : "all-honest"), "Flip returned false at an honest party in an admissible scenario", ww.str()); broken = true; }
	if (broken) { C.distinct.insert(sc.label); return; }
	size_t h0 = H[0]; const std::vector<size_t> &Q = ed[h0]->rvss->Qual;
	for (size_t i : H) {
		C.evals += 2;
		if (mpz_cmp(a[i].v, a[h0].v)) { violation("C17/nparty/outputs-differ", "honest parties output different coin values", w.str()); break; }
		if (ed[i]->rvss->Qual != Q) { violation("C17/nparty/qual-differs", "honest parties hold different Qual sets", w.str()); break; }
	}
	for (size_t i : H) if (std::find(Q.begin(), Q.end(), i) == Q.end()) violation("C17/nparty/honest-not-in-qual", "an honest party that completed the flip is not in Qual", w.str());
	for (int s : sc.silent) if (std::find(Q.begin(), Q.end(), (size_t)s) != Q.end()) violation("C17/nparty/silent-party-in-qual", "a party that never sent anything is in Qual", w.str());
	// sum over Qual of the committed shares; the share of a party is what its own RVSS object holds,
	// checked against the commitment C_j0 that the honest parties hold for it
	Z sum, cm; bool commitments_ok = true, sum_checkable = true;
	for (size_t j : Q) {
		mpz_add(sum.v, sum.v, ed[j]->rvss->a_i); mpz_mod(sum.v, sum.v, G.q.v);
		commit(cm, ed[j]->rvss->a_i, ed[j]->rvss->hata_i, G);
		for (size_t i : H) if (mpz_cmp(cm.v, ed[i]->rvss->C_ik[j][0])) { if (isdev[j]) sum_checkable = false; else commitments_ok = false; }
	}
	C.evals += 2;
	if (!sum_checkable) { count("np_sum_not_checkable_commitment_altered"); mpz_set(sum.v, a[h0].v); }   // the scripted party altered its own commitment: its committed share is unknown to the harness
	if (!commitments_ok) violation("C17/nparty/commitment-differs-from-share", "g^a_j h^hat-a_j of a qualified party differs from the commitment C_j0 held by an honest party", w.str());
	if (mpz_cmp(sum.v, a[h0].v)) { J ww = w; ww.kz("sum_of_committed_shares_of_Qual", sum.v); violation(dev ? "C17/nparty/output-not-sum-of-committed-shares/deviating-party" : "C17/nparty/output-not-sum-of-committed-shares/all-honest", "coin value differs from the sum mod q of the committed shares of Qual", ww.str()); }
	else count("np_sum_ok");
	if (mpz_sgn(a[h0].v) < 0 || mpz_cmp(a[h0].v, G.q.v) >= 0) violation("C17/sum/output-out-of-range", "coin value outside [0,q)", w.str());
	for (int f : sc.faulty) { if (std::find(Q.begin(), Q.end(), (size_t)f) != Q.end()) { count("np_faulty_in_qual_reconstructed"); if (errs[h0].find("reconstructing parties") == std::string::npos) count("np_faulty_in_qual_without_reconstruction_log"); } else count("np_faulty_disqualified"); }
	// ---- ordering with a slow party: the share of i must not occur in anything i sent before T_w
	if (sc.slow >= 0) {
		if (Tw < 0) violation("C17/harness/slow-party-sent-nothing", "scenario error", w.str());
		long long checked = 0;
		for (size_t i : H) {
			if ((int)i == sc.slow) continue;
			for (auto &m : early) {
				if (m.from != i || m.at >= Tw) continue;
				checked++;
				bool sh = !mpz_cmp(m.v.v, ed[i]->rvss->a_i), bl = !mpz_cmp(m.v.v, ed[i]->rvss->hata_i);
				if (sh || bl) { J ww = w; ww.kv("party", (long long)i).kv("sent_at", m.at - t0).kv("T_w", Tw - t0).kv("network", m.net ? "broadcast" : "unicast").kv("value", sh ? "share a_i" : "blinding value hat-a_i"); violation("C17/nparty/ordering/share-sent-before-slow-commitment-could-arrive", "a party sent its share before the slow party's commitment could have arrived", ww.str()); break; }
			}
			// the monitor is not blind: the same value does occur later (the opening broadcast)
			uint64_t hsh = fnv(mpz_dec(ed[i]->rvss->a_i)); bool seen = false; for (auto &l : late) if (l.first == i && l.second == hsh) { seen = true; break; }
			if (seen) count("np_ordering_share_seen_after_Tw"); else if (std::find(Q.begin(), Q.end(), i) != Q.end()) count("np_ordering_share_never_seen");
		}
		C.evals++; count("np_ordering_msgs_checked", checked); count("np_ordering_runs");
	}
	C.distinct.insert(sc.label);
	if (C.sample.empty()) { std::string q; for (size_t x : Q) q += std::to_string(x) + ","; C.sample = J().kv("part", "n-party").kv("scenario", sc.label).kz("a", a[h0].v).kv("Qual", q).kv("honest_parties", (long long)H.size()).kv("messages", nmsgs).kv("virtual_seconds", (long long)(g_vtime - t0)).str(); }
}

static void part_nparty(long &kc, const Group &G) {
	std::vector<Scn> L;
	auto add = [&](size_t n, size_t t, std::vector<int> f, std::vector<int> sil, int slow, long D, bool jit, double pre, const std::string &kind) {
		Scn s; s.n = n; s.t = t; s.faulty = f; s.silent = sil; s.slow = slow; s.D = D; s.jitter = jit; s.preempt = pre;
		std::string fs; for (int x : f) fs += std::to_string(x) + "."; std::string ss; for (int x : sil) ss += std::to_string(x) + ".";
		s.label = kind + " n=" + std::to_string(n) + " t=" + std::to_string(t) + (f.size() ? " faulty=" + fs : "") + (sil.size() ? " silent=" + ss : "") + (slow >= 0 ? " slow=" + std::to_string(slow) + " D=" + std::to_string(D) : "") + (jit ? " jitter" : "");
		L.push_back(s);
	};
	size_t nmax = ctx.quick() ? 5 : 7; int reps = ctx.quick() ? 1 : 2;
	for (int rep = 0; rep < reps; rep++) {
		for (size_t n = 2; n <= nmax; n++) for (size_t t = 0; 2 * t < n; t++) {
			bool bound = 3 * t < n;
			add(n, t, {}, {}, -1, 0, false, 0.0, bound ? "honest" : "honest-beyond-broadcast-bound");
			if (!bound) continue;
			add(n, t, {}, {}, -1, 0, true, 0.1, "honest");
			// one slow honest party (ordering monitor); t = 0 makes the private sub-shares equal to the share itself
			for (size_t w = 0; w < n; w++) { if (n > 4 && w != (n + t + rep) % n) continue; add(n, t, {}, {}, (int)w, 1 + (long)((n + t + w + rep) % 5), false, 0.0, "slow"); }
			if (t >= 1) {
				// every faulty set of size 1 (and of size 2 for t = 2), library's own deviation switch
				for (size_t f = 0; f < n; f++) add(n, t, {(int)f}, {}, -1, 0, false, 0.0, "faulty");
				if (t >= 2) for (size_t f = 0; f < n; f++) for (size_t g = f + 1; g < n; g++) { if ((f + g + rep) % 3) continue; add(n, t, {(int)f, (int)g}, {}, -1, 0, false, 0.0, "faulty"); }
				add(n, t, {(int)((n + rep) % n)}, {}, (int)((n + rep + 1) % n), 2, false, 0.0, "faulty+slow");
				add(n, t, {}, {(int)((n + rep + 2) % n)}, -1, 0, false, 0.0, "silent");
				if (t >= 2) add(n, t, {(int)((n + rep) % n)}, {(int)((n + rep + 3) % n)}, -1, 0, false, 0.0, "faulty+silent");
			}
		}
	}
	// scripted deviations (appended: earlier case numbers unchanged): every broadcast position k of the flip (positions beyond the
	// last broadcast do not fire, counted), alone and combined with a wrong sub-share to one victim; k = 0: wrong sub-share only
	{
		std::vector<std::pair<size_t, size_t>> nts = {{4, 1}}; if (!ctx.quick()) { nts.push_back({5, 1}); nts.push_back({7, 2}); }
		for (auto &nt : nts) for (long ak = 0; ak <= (long)(nt.second + 13); ak++) for (int withshare = 0; withshare < 2; withshare++) {
			if (ak == 0 && !withshare) continue;
			size_t n = nt.first, t = nt.second; int dv = (int)((ak + withshare) % (long)n), vic = (int)((dv + 1 + ak) % (long)n); if (vic == dv) vic = (dv + 1) % (int)n;
			add(n, t, {}, {}, -1, 0, false, 0.0, "scripted");
			Scn &s = L.back(); s.dev = dv; s.victim = withshare ? vic : -1; s.alter_k = ak;
			s.label += " dev=" + std::to_string(dv) + (withshare ? " wrong-subshare-to=" + std::to_string(vic) : "") + " alter_k=" + std::to_string(ak);
		}
	}
	for (size_t i = 0; i < L.size(); i++) {
		J d; d.kv("part", "n-party").kv("scenario", L[i].label).kv("idx", (long long)i).kv("group", G.name);
		long k = kc++; if (!case_begin(k, d.str())) continue;
		Counter C; run_nparty(G, k, L[i], C);
		case_end(d.str(), C.evals > 0, C.sample, C.evals, (long long)C.distinct.size());
	}
}

int main(int argc, char **argv) {
	init(argc, argv);
	if (ctx.option("cerr", "") != "1") null_cerr();      // --opt cerr=1 keeps the library's diagnostics (debugging)
	if (!init_libTMCG()) { fprintf(stderr, "init_libTMCG failed\n"); return 2; }
	long k = 0;
	Group S = make_group(512, 160, 17);
	std::string only = ctx.option("part", "");
	if (only != "twoparty") part_nparty(k, S);       // heavy cases first: better shard balance
	if (only != "nparty") part_twoparty(k, S, ctx.quick() ? 1 : 8);
	if (ctx.thorough() && only != "nparty") { Group D = make_group(1024, 256, 27); part_twoparty(k, D, 2); }
	finish();
	return 0;
}
