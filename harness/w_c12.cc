// w_c12.cc — C12: untrusted input never corrupts memory or kills the process.
// Structure-aware mutator workload ("san" flavour).  One case = one mutated input fed to one
// entry point; the outcome must be one of {refused, accepted-but-check-fails, accepted,
// std::exception}.  Everything else (sanitizer report, assert, SIGFPE/SIGSEGV, escaping
// non-standard exception, hang) kills/blocks the worker and is attributed by the runner.
//   options: --opt corpus=<dir>   committed OpenPGP artefacts (corpus/c12)
//            --opt dump=<dir>     write all seed artefacts (fuzzer seed corpus) and exit
//            --opt scale=<pct>    scale the number of variants per (entry, seed, class)
//            --opt sample=<n>     run only ~n cases (memcheck replay)
//            --opt group=<name>   only entries of one group
//            --opt plan=1         print the number of planned cases and the entry list, run nothing
//            --opt tierplan=quick plan the quick catalogue although --tier is thorough (memcheck replay)
#include "engine.hh"
#include "protos.hh"
#include "c12_mut.hh"
#include "c12_entries.hh"
#include <aiounicast_select.hh>
#include <aiounicast_nonblock.hh>
#include <dirent.h>
#include <dlfcn.h>
#include <execinfo.h>
#include <fcntl.h>
#include <signal.h>
#include <sys/resource.h>
#include <sys/stat.h>
#include <unistd.h>
#if defined(__SANITIZE_ADDRESS__)
#include <sanitizer/common_interface_defs.h>
#endif

using namespace vf;
using namespace c12;

// ------------------------------------------------------------------ crash witness
static std::string g_cur_entry, g_cur_input; static bool g_dumped = false;
static void dump_input() {
	if (g_dumped || ctx.cur_case < 0) return; g_dumped = true;
	char fn[64]; snprintf(fn, sizeof fn, "c12-crash-case%ld.json", ctx.cur_case);
	int fd = open(fn, O_WRONLY | O_CREAT | O_TRUNC, 0644);
	std::string hx = hex((const unsigned char *)g_cur_input.data(), g_cur_input.size());
	if (fd >= 0) { std::string j = J().kv("case", (long long)ctx.cur_case).kv("entry", g_cur_entry).kv("len", (long long)g_cur_input.size()).kv("input_hex", hx).str(); if (write(fd, j.data(), j.size()) < 0) {} close(fd); }
	dprintf(2, "\nC12-INPUT case=%ld entry=%s len=%zu file=%s hex=%s\n", ctx.cur_case, g_cur_entry.c_str(), g_cur_input.size(), fn, hx.substr(0, 800).c_str());
}
// abort() that is neither an assert nor a sanitizer report (e.g. a fatal error inside libgcrypt): print the
// innermost library frames in the format lib/vf/runner.py derives "signal/<name>/<site>" keys from
static void on_abort(int) {
	dump_input();
	void *bt[64]; int n = backtrace(bt, 64); dprintf(2, "\nVF-CRASH signal=SIGABRT case=%ld\n", ctx.cur_case);
	static const char *const frag[] = { "TMCG", "CallasDonnerhacke", "BarnettSmart", "Groth", "Hoogh", "Pedersen", "NaorPinkas", "Gennaro", "Canetti", "Jarecki", "Cachin", "aiounicast", "Schindelhauer", "tmcg_" };
	for (int i = 0; i < n; i++) { Dl_info di; if (!dladdr(bt[i], &di) || !di.dli_sname) continue; if (!strncmp(di.dli_sname, "_ZN3c12", 7) || !strncmp(di.dli_sname, "_ZN2pr", 6)) continue;
		for (auto f : frag) if (strstr(di.dli_sname, f)) { dprintf(2, "(%s+0x0)\n", di.dli_sname); break; } }
	signal(SIGABRT, SIG_DFL); raise(SIGABRT);
}

// ------------------------------------------------------------------ entries
enum Kind { K_TEXT, K_PGP, K_ARMOR, K_WIRE, K_INTERACTIVE };
struct Seed { std::string name, data; };
struct EntryT {
	std::string name, group; Kind kind; RunFn run; std::vector<Seed> seeds;
	pr::Instance *inst = nullptr; size_t plines = 0;      // interactive
	std::vector<TArt> tart; std::vector<PArt> part;
};
static std::vector<EntryT> g_entries;
static EntryT &add_entry(const std::string &name, const std::string &group, Kind k, RunFn f) { EntryT e; e.name = name; e.group = group; e.kind = k; e.run = f; g_entries.push_back(e); return g_entries.back(); }
template <class T> static std::string str_of(const T &o) { std::ostringstream os; os << o; return os.str(); }

static std::unique_ptr<pr::World> g_W;
static std::vector<pr::Instance *> g_inst;
static PgpWorld g_PW;

// own protocol instances not in the registry: oblivious transfer (both roles), RVSS two-party
static void add_ot_instances(pr::World &W, std::vector<pr::Instance *> &out) {
	Rng *old = tl_rng; tl_rng = &W.rng;
	auto otS = std::shared_ptr<NaorPinkasEOTP>(new NaorPinkasEOTP(W.ps.fs, W.ps.gs)); std::stringstream g; otS->PublishGroup(g);
	auto otC = std::shared_ptr<NaorPinkasEOTP>(new NaorPinkasEOTP(g, W.ps.fs, W.ps.gs));
	auto M = std::make_shared<pr::ZV>(4); for (size_t i = 0; i < 4; i++) { tmcg_mpz_srandomm(M->v[i], otS->q); mpz_powm(M->v[i], otS->g, M->v[i], otS->p); }
	tl_rng = old;
	for (int var = 0; var < 3; var++) for (int victim = 0; victim < 2; victim++) {
		pr::Instance *I = new pr::Instance; I->interactive = true; I->keep.push_back(otS); I->keep.push_back(otC); I->keep.push_back(M);
		const char *vn = var == 0 ? "1of2" : (var == 1 ? "1ofN" : "1ofN-opt");
		I->proto = std::string("eotp/") + vn + (victim ? "/chooser-reads" : "/sender-reads");
		auto send = [otS, M, var](std::istream &in, std::ostream &out) -> bool { if (var == 0) return otS->Send_interactive_OneOutOfTwo(M->v[0], M->v[1], in, out); if (var == 1) return otS->Send_interactive_OneOutOfN(M->v, in, out); return otS->Send_interactive_OneOutOfN_optimized(M->v, in, out); };
		auto choose = [otC, var](std::istream &in, std::ostream &out) -> bool { mpz_t m; mpz_init(m); bool ok; if (var == 0) ok = otC->Choose_interactive_OneOutOfTwo(1, m, in, out); else if (var == 1) ok = otC->Choose_interactive_OneOutOfN(2, 4, m, in, out); else ok = otC->Choose_interactive_OneOutOfN_optimized(2, 4, m, in, out); mpz_clear(m); return ok; };
		if (victim == 0) { I->prove = [choose](std::istream &in, std::ostream &out) { choose(in, out); }; I->verify = send; }
		else { I->prove = [send](std::istream &in, std::ostream &out) { send(in, out); }; I->verify = choose; }
		out.push_back(I);
	}
	{ // JareckiLysyanskayaRVSS::Share_twoparty, party 1 reads what party 0 (relayed) writes
		auto r0 = std::shared_ptr<JareckiLysyanskayaRVSS>(new JareckiLysyanskayaRVSS(2, 0, W.vP->p, W.vP->q, W.vP->g, W.vP->h, W.ps.fs, W.ps.gs));
		auto r1 = std::shared_ptr<JareckiLysyanskayaRVSS>(new JareckiLysyanskayaRVSS(2, 0, W.vV->p, W.vV->q, W.vV->g, W.vV->h, W.ps.fs, W.ps.gs));
		pr::Instance *I = new pr::Instance; I->interactive = true; I->proto = "rvss/share-twoparty"; I->keep.push_back(r0); I->keep.push_back(r1);
		I->prove = [r0](std::istream &in, std::ostream &out) { std::stringstream err; r0->Share_twoparty(0, in, out, err); };
		I->verify = [r1](std::istream &in, std::ostream &out) { std::stringstream err; return r1->Share_twoparty(1, in, out, err); };
		out.push_back(I);
	}
}

// ------------------------------------------------------------------ wire entries (aiounicast)
struct WireMode { bool auth, enc, chunked; const char *name; };
static const WireMode WMODES[] = { {false, false, false, "plain"}, {false, true, false, "enc"}, {false, true, true, "enc-chunked"}, {true, false, false, "auth"}, {true, true, false, "auth-enc"}, {true, true, true, "auth-enc-chunked"} };
struct PipeSet { int fds[10]; PipeSet() { for (int i = 0; i < 5; i++) if (pipe(fds + 2 * i)) { perror("pipe"); _exit(2); } } ~PipeSet() { for (int i = 0; i < 10; i++) close(fds[i]); } };
template <class AIO> static aiounicast *mk_aio(size_t j, PipeSet &P, const WireMode &m) {
	// party j of 2; wire: 0 -> 1 goes through pipe 0 (sender end) resp. pipe 1 (receiver end, fed by the harness)
	std::vector<std::string> keys = {"c12key", "c12key"}; std::vector<int> in, out;
	if (j == 0) { in = {P.fds[4], P.fds[6]}; out = {P.fds[5], P.fds[1]}; }       // to self: pipe 2 ; to 1: pipe 0
	else { in = {P.fds[2], P.fds[8]}; out = {P.fds[7], P.fds[9]}; }              // from 0: pipe 1 ; rest dummies
	return new AIO(2, j, in, out, keys, aiounicast::aio_scheduler_direct, 0, m.auth, m.enc, m.chunked);
}
template <class AIO> static std::string wire_seed(const WireMode &m, Rng &r) {
	PipeSet P; fcntl(P.fds[0], F_SETFL, O_NONBLOCK); if (std::is_same<AIO, aiounicast_nonblock>::value) for (int i = 0; i < 10; i++) fcntl(P.fds[i], F_SETFL, O_NONBLOCK);
	std::unique_ptr<aiounicast> A(mk_aio<AIO>(0, P, m)); mpz_t v; mpz_init(v); std::string w;
	for (int k = 0; k < 3; k++) { r.mpz_bits(v, 40 + 200 * k); A->Send(v, 1, 1); char buf[65536]; ssize_t n; while ((n = read(P.fds[0], buf, sizeof buf)) > 0) w.append(buf, n); }
	mpz_clear(v); return w;
}
template <class AIO> static int wire_run(const WireMode &m, const std::string &bytes) {
	PipeSet P; for (int i : {2, 3}) fcntl(P.fds[i], F_SETFL, O_NONBLOCK);
	if (std::is_same<AIO, aiounicast_nonblock>::value) for (int i = 0; i < 10; i++) fcntl(P.fds[i], F_SETFL, O_NONBLOCK);
	std::unique_ptr<aiounicast> B(mk_aio<AIO>(1, P, m));
	mpz_t v; mpz_init(v); size_t delivered = 0, off = 0, idle = 0; bool closed = false;
	for (int step = 0; step < 4000 && idle < 6; step++) {
		if (off < bytes.size()) { ssize_t n = write(P.fds[3], bytes.data() + off, std::min<size_t>(bytes.size() - off, 16384)); if (n > 0) off += n; }
		else if (!closed) { closed = true; close(P.fds[3]); P.fds[3] = open("/dev/null", O_WRONLY); }   // sender went away
		size_t from = 0;
		if (B->Receive(v, from, aiounicast::aio_scheduler_direct, 0)) { delivered++; idle = 0; g_sink += mpz_sizeinbase(v, 2); } else if (off >= bytes.size()) idle++;
	}
	{ std::vector<mpz_ptr> vec; mpz_t a, b; mpz_init(a); mpz_init(b); vec.push_back(a); vec.push_back(b); size_t from = 0; if (B->Receive(vec, from, aiounicast::aio_scheduler_direct, 0)) delivered += 2; mpz_clear(a); mpz_clear(b); }
	mpz_clear(v);
	return delivered ? ACCEPTED : REFUSED;
}

// ------------------------------------------------------------------ setup
static std::string run_prover(pr::Instance *I, uint64_t lane) { Rng r(ctx.seed, 0xAB0, lane); Rng *old = tl_rng; tl_rng = &r; std::stringstream in, out; I->prove(in, out); tl_rng = old; return out.str(); }

static void load_corpus(const std::string &dir, std::vector<Seed> &bin, std::vector<Seed> &arm) {
	DIR *d = opendir(dir.c_str()); if (!d) return; std::vector<std::string> names;
	while (dirent *e = readdir(d)) { std::string n = e->d_name; if (n.size() > 4 && (n.substr(n.size() - 4) == ".pgp" || n.substr(n.size() - 4) == ".asc")) names.push_back(n); }
	closedir(d); std::sort(names.begin(), names.end());
	for (auto &n : names) { std::string c = read_file(dir + "/" + n); if (c.empty()) continue; if (n.substr(n.size() - 4) == ".asc") arm.push_back({n, c}); else bin.push_back({n, c}); }
}
static std::string kind_of(const std::string &n) {
	if (n.find("pub") != n.npos || n.find("mallory") != n.npos || n.find("davey") != n.npos || (n.find("alice_armored") != n.npos)) return "pub";
	if (n.find("sec") != n.npos || n.find("prv") != n.npos || n.find("emma") != n.npos) return "prv";
	if (n.find("ring") != n.npos) return "ring";
	if (n.find("sig") != n.npos && n.find("signed") == n.npos) return "sig";
	return "msg";
}

static void build_all() {
	Rng setup = setup_rng(12); tl_rng = &setup;
	g_par.fs = pr::PS_G.fs; g_par.gs = pr::PS_G.gs; g_par.le = pr::PS_G.le; g_par.n = 4;
	g_W.reset(new pr::World(pr::PS_G, 0, ctx.seed)); pr::World &W = *g_W; W.need_rabin(); W.need_vrhe(); W.need_edcf();
	Rng rg(ctx.seed, 0xC12, 1);

	// ---- importers: seeds exported by the library
	{
		SchindelhauerTMCG tm(8, 2, 3); Rng *old = tl_rng; tl_rng = &W.rng;
		TMCG_Card qc(2, 3); TMCG_CardSecret qcs(2, 3); tm.TMCG_CreatePrivateCard(qc, qcs, *W.ring, 0, 5);
		VTMF_Card vc; VTMF_CardSecret vcs; tm.TMCG_CreatePrivateCard(vc, vcs, W.vP, 5);
		TMCG_Stack<TMCG_Card> qs; TMCG_Stack<VTMF_Card> vs; TMCG_StackSecret<TMCG_CardSecret> qss; TMCG_StackSecret<VTMF_CardSecret> vss;
		for (size_t i = 0; i < 3; i++) { TMCG_Card c(2, 3); tm.TMCG_CreateOpenCard(c, *W.ring, i); qs.push(c); VTMF_Card v; tm.TMCG_CreateOpenCard(v, W.vP, i); vs.push(v); }
		tm.TMCG_CreateStackSecret(qss, false, *W.ring, 0, 3); tm.TMCG_CreateStackSecret(vss, false, 3, W.vP);
		tl_rng = old;
		struct { const char *n; RunFn s, io; std::vector<std::string> seeds; } imps[] = {
			{"card-qr", imp_string<TMCG_Card>, imp_stream<TMCG_Card>, {str_of(qc), "crd|1|1|4|"}},
			{"cardsecret-qr", imp_string_ne<TMCG_CardSecret>, imp_stream<TMCG_CardSecret>, {str_of(qcs)}},
			{"card-vtmf", imp_string<VTMF_Card>, imp_stream<VTMF_Card>, {str_of(vc)}},
			{"cardsecret-vtmf", imp_string_ne<VTMF_CardSecret>, imp_stream<VTMF_CardSecret>, {str_of(vcs)}},
			{"stack-qr", imp_stack_string<TMCG_Stack<TMCG_Card>>, imp_stream<TMCG_Stack<TMCG_Card>>, {str_of(qs)}},
			{"stack-vtmf", imp_stack_string<TMCG_Stack<VTMF_Card>>, imp_stream<TMCG_Stack<VTMF_Card>>, {str_of(vs)}},
			{"stacksecret-qr", imp_ss_string<TMCG_StackSecret<TMCG_CardSecret>>, imp_stream<TMCG_StackSecret<TMCG_CardSecret>>, {str_of(qss)}},
			{"stacksecret-vtmf", imp_ss_string<TMCG_StackSecret<VTMF_CardSecret>>, imp_stream<TMCG_StackSecret<VTMF_CardSecret>>, {str_of(vss), "sts^1^0^crs|5|^"}},
		};
		for (auto &i : imps) {
			EntryT &a = add_entry(std::string("import/") + i.n, "import", K_TEXT, i.s); for (size_t k = 0; k < i.seeds.size(); k++) a.seeds.push_back({"export" + std::to_string(k), i.seeds[k]});
			EntryT &b = add_entry(std::string("op>>/") + i.n, "import", K_TEXT, i.io); b.seeds.push_back({"export0", i.seeds[0] + "\n"});
		}
		EntryT &m = add_entry("op>>/mpz", "import", K_TEXT, imp_mpz_stream); m.seeds.push_back({"three", vf::mpz_b62(W.vP->p) + "\n" + vf::mpz_b62(W.vP->q) + "\n-5\n"});
	}
	// ---- Rabin keys (one with validity proof, one without)
	{
		Rng *old = tl_rng; tl_rng = &W.rng;
		TMCG_SecretKey sk("Carol C12", "carol@c12.test", 768, true); TMCG_SecretKey sk2("Dave", "d@c12", 704, false); tl_rng = old;
		TMCG_PublicKey pk(sk), pk2(sk2); std::string p1 = str_of(pk), p2 = str_of(pk2), s1 = str_of(sk), s2 = str_of(sk2);
		struct { const char *n; RunFn f; bool sec, nl; } ks[] = { {"key/pub-import", key_pub_import, false, false}, {"key/pub-ctor", key_pub_ctor, false, false}, {"key/pub-op>>", key_pub_stream, false, true},
			{"key/sec-import", key_sec_import, true, false}, {"key/sec-ctor", key_sec_ctor, true, false}, {"key/sec-op>>", key_sec_stream, true, true} };
		for (auto &k : ks) { EntryT &e = add_entry(k.n, "key", K_TEXT, k.f); e.seeds.push_back({"nizk-key", (k.sec ? s1 : p1) + (k.nl ? "\n" : "")}); e.seeds.push_back({"plain-key", (k.sec ? s2 : p2) + (k.nl ? "\n" : "")}); }
		// hostile signature / ciphertext against a trusted local key
		auto skp = std::make_shared<TMCG_SecretKey>(sk); auto pkp = std::make_shared<TMCG_PublicKey>(pk);
		{ Rng r2(ctx.seed, 77); tl_rng = &r2; std::string sig = sk.sign("c12 data"); unsigned char v[TMCG_SAEP_S0]; memset(v, 9, sizeof v); std::string enc = pk.encrypt(v); tl_rng = old;
		  EntryT &e1 = add_entry("key/pub-verify-sig", "key", K_TEXT, [pkp](const std::string &s) { return pkp->verify("c12 data", s) ? ACCEPTED : REFUSED; }); e1.seeds.push_back({"sig", sig});
		  EntryT &e2 = add_entry("key/sec-verify-sig", "key", K_TEXT, [skp](const std::string &s) { return skp->verify("c12 data", s) ? ACCEPTED : REFUSED; }); e2.seeds.push_back({"sig", sig});
		  EntryT &e3 = add_entry("key/sec-decrypt", "key", K_TEXT, [skp](const std::string &s) { unsigned char w[TMCG_SAEP_S0]; return skp->decrypt(w, s) ? ACCEPTED : REFUSED; }); e3.seeds.push_back({"enc", enc}); }
	}
	// ---- stream constructors
	{
		Rng *old = tl_rng; tl_rng = &W.rng; unsigned long fs = g_par.fs, gs = g_par.gs; std::stringstream s;
		auto pub = [&](const char *n, RunFn f, const std::string &text) { EntryT &e = add_entry(std::string("ctor/") + n, "ctor", K_TEXT, f); e.seeds.push_back({"published", text}); };
		{ std::stringstream o; W.vP->PublishGroup(o); pub("vtmf", ctor_vtmf, o.str()); }
		{ BarnettSmartVTMF_dlog v(fs, gs, true, true); std::stringstream o; v.PublishGroup(o); pub("vtmf-canonical", ctor_vtmf_canon, o.str()); }
		{ BarnettSmartVTMF_dlog_GroupQR v(fs, gs); std::stringstream o; v.PublishGroup(o); pub("vtmf-groupqr", ctor_vtmf_qr, o.str()); }
		{ PedersenCommitmentScheme c(g_par.n, fs, gs); std::stringstream o; c.PublishGroup(o); pub("pedersen-com", ctor_pedersen_com, o.str()); }
		{ PedersenTrapdoorCommitmentScheme c(fs, gs); std::stringstream o; c.PublishGroup(o); pub("pedersen-trapdoor", ctor_pedersen_tcom, o.str()); }
		{ GrothSKC c(g_par.n, g_par.le, fs, gs); std::stringstream o; c.PublishGroup(o); pub("groth-skc", ctor_groth_skc, o.str()); }
		{ auto vs = W.need_vsshe(g_par.n); std::stringstream o; vs.first->PublishGroup(o); pub("groth-vsshe", ctor_groth_vsshe, o.str()); }
		{ std::stringstream o; W.rP->PublishGroup(o); pub("hoogh-vrhe", ctor_hoogh_vrhe, o.str()); }
		{ NaorPinkasEOTP c(fs, gs); std::stringstream o; c.PublishGroup(o); pub("naor-pinkas-eotp", ctor_eotp, o.str()); }
		mpz_srcptr p = W.vP->p, q = W.vP->q, g = W.vP->g, h = W.vP->h;
		{ PedersenVSS c(3, 1, 0, p, q, g, h, fs, gs, false, "c12"); std::stringstream o; c.PublishState(o); pub("pedersen-vss", ctor_pedersen_vss, o.str()); }
		{ GennaroJareckiKrawczykRabinDKG c(3, 1, 0, p, q, g, h, fs, gs, false, false, "c12"); for (size_t i = 0; i < 3; i++) c.QUAL.push_back(i); std::stringstream o; c.PublishState(o); pub("gjkr-dkg", ctor_gjkr_dkg, o.str()); }
		{ CanettiGennaroJareckiKrawczykRabinRVSS c(3, 1, 0, 1, p, q, g, h, fs, gs, false, false, "c12"); for (size_t i = 0; i < 3; i++) c.QUAL.push_back(i); std::stringstream o; c.PublishState(o); pub("cgjkr-rvss", ctor_cgjkr_rvss, o.str()); }
		{ CanettiGennaroJareckiKrawczykRabinZVSS c(3, 1, 0, 1, p, q, g, h, fs, gs, false, false, "c12"); for (size_t i = 0; i < 3; i++) c.QUAL.push_back(i); std::stringstream o; c.PublishState(o); pub("cgjkr-zvss", ctor_cgjkr_zvss, o.str()); }
		{ CanettiGennaroJareckiKrawczykRabinDKG c(3, 1, 0, p, q, g, h, fs, gs, false, false, "c12"); for (size_t i = 0; i < 3; i++) c.QUAL.push_back(i); std::stringstream o; c.PublishState(o); pub("cgjkr-dkg", ctor_cgjkr_dkg, o.str()); }
		{ CanettiGennaroJareckiKrawczykRabinDSS c(3, 1, 0, p, q, g, h, fs, gs, false, false); for (size_t i = 0; i < 3; i++) c.QUAL.push_back(i); std::stringstream o; c.PublishState(o); pub("cgjkr-dss", ctor_cgjkr_dss, o.str()); }
		tl_rng = old; (void)s;
	}
	// ---- verifiers: registry of C03 (honest prover + verifier with a well-formed local statement) + own
	{
		for (auto &f : pr::registry()) { if (f.name == "rabin/key-nizk") continue;   // covered by key/pub-import
			pr::Instance *I = f.make(W, rg, f.sized ? g_par.n : 0); if (I) g_inst.push_back(I); }
		add_ot_instances(W, g_inst);
		for (pr::Instance *I : g_inst) {
			if (I->interactive) {
				EntryT &e = add_entry("verify/" + I->proto, "verify", K_INTERACTIVE, nullptr); e.inst = I;
				pr::RunResult R = pr::run(*I, ctx.seed, 0xD0); e.plines = R.plines;
				if (!R.ok) { fprintf(stderr, "C12 setup: honest run of %s refused\n", I->proto.c_str()); count("setup_honest_refused"); }
			} else {
				pr::Instance *J_ = I; EntryT &e = add_entry("verify/" + I->proto, "verify", K_TEXT, [J_](const std::string &s) -> int { std::istringstream in(s); std::ostringstream out; try { return J_->verify(in, out) ? ACCEPTED : REFUSED; } catch (std::exception &) { return STDEXC; } });
				e.seeds.push_back({"proof", run_prover(I, g_entries.size())});
			}
		}
	}
	// ---- OpenPGP
	{
		Rng pr_(ctx.seed, 0x969); tl_rng = &pr_; pgp_build(g_PW); tl_rng = &setup;
		for (auto &er : g_PW.errors) fprintf(stderr, "C12 setup: pgp seed: %s\n", er.c_str());
		count("pgp_seed_errors", (long long)g_PW.errors.size());
		std::vector<Seed> cb, ca; load_corpus(ctx.option("corpus", "/verif/corpus/c12"), cb, ca);
		std::map<std::string, std::vector<Seed>> bin, arm;
		for (auto &s : g_PW.seeds) { bin[s.kind].push_back({s.name, b2s(s.bin)}); arm[s.kind].push_back({s.name + ".asc", s.arm}); }
		for (auto &s : cb) bin[kind_of(s.name)].push_back(s);
		for (auto &s : ca) { if (s.name.find("clearsign") != s.name.npos) { arm["clear"].push_back(s); continue; } arm[kind_of(s.name)].push_back(s); Oct o; if (PGP::ArmorDecode(s.data, o) != TMCG_OPENPGP_ARMOR_UNKNOWN) bin[kind_of(s.name)].push_back({s.name + ".bin", b2s(o)}); }
		// local side: own private keys, ring of known public keys
		std::vector<std::pair<std::string, std::string>> prvs; std::vector<std::string> pubs;
		for (auto &s : bin["prv"]) prvs.push_back({s.data, s.name.find("pw") != s.name.npos || s.name.find("dsa-elg") != s.name.npos ? g_PW.passphrase : ""});
		for (auto &s : bin["pub"]) pubs.push_back(s.data);
		pgp_ctx_setup(prvs, pubs, g_PW.seskey, g_PW.data);
		count("pgp_local_prvkeys", (long long)g_pgp.prv.size()); count("pgp_local_ring", (long long)(g_pgp.ring ? g_pgp.ring->Size() : 0));
		struct { const char *n; RunFn f; Kind k; std::vector<std::string> kinds; } es[] = {
			{"pgp/ArmorDecode", pgp_armor_decode, K_ARMOR, {"pub", "prv", "prvpkt", "sig", "msg", "clear"}},
			{"pgp/PacketDecode", pgp_packet_decode, K_PGP, {"pub", "prv", "prvpkt", "sig", "msg"}},
			{"pgp/PublicKeyBlockParse", pgp_pubkey_block, K_PGP, {"pub"}}, {"pgp/PublicKeyBlockParse-armored", pgp_pubkey_block_armored, K_ARMOR, {"pub"}},
			{"pgp/PrivateKeyBlockParse", pgp_prvkey_block, K_PGP, {"prv"}}, {"pgp/PrivateKeyBlockParse-armored", pgp_prvkey_block_armored, K_ARMOR, {"prv"}},
			{"pgp/SignatureParse", pgp_signature, K_PGP, {"sig"}}, {"pgp/SignatureParse-armored", pgp_signature_armored, K_ARMOR, {"sig"}},
			{"pgp/PublicKeyringParse", pgp_keyring, K_PGP, {"ring", "pub"}}, {"pgp/PublicKeyringParse-armored", pgp_keyring_armored, K_ARMOR, {"ring"}},
			{"pgp/MessageParse", pgp_message, K_PGP, {"msg"}}, {"pgp/MessageParse-armored", pgp_message_armored, K_ARMOR, {"msg"}},
		};
		for (auto &x : es) { EntryT &e = add_entry(x.n, "pgp", x.k, x.f); for (auto &kd : x.kinds) for (auto &s : (x.k == K_ARMOR ? arm[kd] : bin[kd])) e.seeds.push_back(s); }
		// SubpacketDecode: hashed areas of the seed signatures
		{ EntryT &e = add_entry("pgp/SubpacketDecode", "pgp", K_PGP, pgp_subpacket_decode);
		  for (auto &s : bin["sig"]) { PArt a = pparse(s2b(s.data)); for (auto &ar : a.area) { const Bytes &b = a.p[ar.pkt].body; size_t l = (b[ar.off] << 8) | b[ar.off + 1]; if (l && ar.off + 2 + l <= b.size()) { e.seeds.push_back({s.name + "/area", std::string(b.begin() + ar.off + 2, b.begin() + ar.off + 2 + l)}); break; } } }
		  e.kind = K_TEXT; }   // raw subpacket bytes: generic byte/field mutations + the subpacket catalogue through SignatureParse
	}
	// ---- aiounicast wire bytes
	for (auto &m : WMODES) {
		WireMode mm = m; Rng wr(ctx.seed, 0x317e); tl_rng = &wr;
		EntryT &a = add_entry(std::string("aio/select-") + m.name, "aio", K_WIRE, [mm](const std::string &s) { return wire_run<aiounicast_select>(mm, s); }); a.seeds.push_back({"three-messages", wire_seed<aiounicast_select>(m, wr)});
		EntryT &b = add_entry(std::string("aio/nonblock-") + m.name, "aio", K_WIRE, [mm](const std::string &s) { return wire_run<aiounicast_nonblock>(mm, s); }); b.seeds.push_back({"three-messages", wire_seed<aiounicast_nonblock>(m, wr)});
	}
	tl_rng = nullptr;
	for (auto &e : g_entries) for (auto &s : e.seeds) { if (e.kind == K_PGP) e.part.push_back(pparse(s2b(s.data))); else e.tart.push_back(tparse(s.data)); }
}

// ------------------------------------------------------------------ case plan
struct Cap { int quick, thorough; };
static size_t cap_of(Kind k, int cls, bool quick, double scale) {
	// variants per (entry, seed, class) before scaling; catalogues smaller than the cap are applied completely
	static const Cap text[T_NCLASS] = { {1, 1}, {6, 60}, {4, 40}, {3, 30}, {10, 200}, {6, 80}, {8, 200}, {12, 300}, {10, 400}, {8, 400}, {5, 100}, {6, 100}, {3, 40} };
	static const Cap pgp[P_NCLASS] = { {1, 1}, {5, 60}, {6, 120}, {3, 40}, {5, 128}, {3, 40}, {6, 200}, {6, 200}, {8, 300}, {2, 20}, {2, 20}, {2, 20}, {6, 300}, {8, 400}, {3, 60}, {2, 8}, {400, 4000} };
	if (k == K_PGP && cls == P_SUBPKT && quick) return (size_t)(24 * scale) ? (size_t)(24 * scale) : 1;
	Cap c = (k == K_PGP) ? pgp[cls] : (k == K_ARMOR ? Cap{2, 40} : text[cls]);
	if (cls == 0 && k != K_ARMOR) return 1;
	double v = (quick ? c.quick : c.thorough) * scale; return v < 1 ? 1 : (size_t)v;
}

static long g_rss_flagged = 0;
static void check_rss(const std::string &entry) {
	struct rusage ru; getrusage(RUSAGE_SELF, &ru);
	if (!g_rss_flagged && ru.ru_maxrss > 3L * 1024 * 1024) { g_rss_flagged = 1; violation("C12/rss-above-3GiB/" + entry, "peak resident set size exceeded 3 GiB while processing untrusted input", J().kv("maxrss_kib", (long long)ru.ru_maxrss).kv("entry", entry).kv("input_hex", shorten(hex((const unsigned char *)g_cur_input.data(), std::min<size_t>(g_cur_input.size(), 4096)), 2000)).str()); }
}

int main(int argc, char **argv) {
	vf::init(argc, argv); vf::null_cerr();
	if (!init_libTMCG()) { fprintf(stderr, "init_libTMCG failed\n"); return 2; }
	signal(SIGABRT, on_abort); signal(SIGPIPE, SIG_IGN);
#if defined(__SANITIZE_ADDRESS__)
	__sanitizer_set_death_callback(dump_input);
#endif
	build_all();
	std::string only_group = ctx.option("group");
	bool quick = ctx.quick() || ctx.option("tierplan") == "quick"; double scale = atof(ctx.option("scale", "100").c_str()) / 100.0;
	long sample = ctx.option_l("sample", 0); bool plan_only = !ctx.option("plan").empty(); if (plan_only && sample <= 0) sample = 1;

	std::string dump = ctx.option("dump");
	if (!dump.empty()) {   // seed corpus for the fuzz targets: <dump>/<group>/<entry>__<seed>
		mkdir(dump.c_str(), 0755); size_t n = 0;
		for (auto &e : g_entries) { if (e.kind == K_INTERACTIVE) continue; std::string sub = dump + "/" + e.group; mkdir(sub.c_str(), 0755);
			for (auto &s : e.seeds) { std::string fn = e.name + "__" + s.name; for (auto &c : fn) if (c == '/' || c == '>' || c == ' ') c = '_'; FILE *f = fopen((sub + "/" + fn).c_str(), "wb"); if (f) { fwrite(s.data.data(), 1, s.data.size(), f); fclose(f); n++; } } }
		printf("dumped %zu seeds\n", n); return 0;
	}

	// total number of planned cases (needed for --opt sample)
	long k = 0, total = 0;
	for (int pass = (sample > 0 ? 0 : 1); pass < 2; pass++) {
		if (pass == 1 && plan_only) { printf("planned cases: %ld entries: %zu\n", total, g_entries.size()); for (auto &e : g_entries) printf("  %s kind=%d seeds=%zu lines=%zu\n", e.name.c_str(), (int)e.kind, e.seeds.size(), e.plines); return 0; }
		k = 0;
		long stride = (pass == 1 && sample > 0 && total > sample) ? total / sample : 1;
		for (size_t ei = 0; ei < g_entries.size(); ei++) {
			EntryT &e = g_entries[ei]; bool skip_group = !only_group.empty() && e.group != only_group;   // same case numbers as the full run
			if (e.kind == K_INTERACTIVE) {
				// identity + (prover line, line-mutation class)
				// quick: a seeded sample of (line, class) pairs per entry, every class and first/last line included
				size_t reps = quick ? 1 : 6; size_t pairs = e.plines * L_NCLASS, want = quick ? (size_t)(48 * scale) : pairs;
				for (size_t line = 0; line <= e.plines; line++) for (int cls = 0; cls < (line == e.plines ? 1 : L_NCLASS); cls++) for (size_t rep = 0; rep < (line == e.plines ? 1 : reps); rep++) {
					bool ident = line == e.plines;
					if (!ident && pairs > want) { size_t idx = line * L_NCLASS + cls; bool keep = (line == 0 || line + 1 == e.plines) ? ((cls + line) % 2 == 0) : (Rng(ctx.seed, fnv(e.name), idx).below(pairs) < want); if (!keep) continue; }
					long kc = k++; if (pass == 0) { total++; continue; }
					if (skip_group || (stride > 1 && kc % stride)) continue;
					J d; d.kv("e", e.name).kv("line", (long long)line).kv("c", ident ? "id" : lclass_name[cls]).kv("rep", (long long)rep);
					if (!case_begin(kc, d.str())) continue;
					g_cur_entry = e.name; g_cur_input = d.str(); g_dumped = false;
					Rng mr = case_rng(kc, 7); pr::RunOpt o; bool eofmode = false; std::string sent;
					if (!ident) o.relayP = [&](size_t idx, const std::string &l) -> std::vector<std::string> {
						if (eofmode) return {};
						if (idx != line) return {l};
						if (cls == 11) { eofmode = true; return {}; }
						std::vector<std::string> v = lmutate(l, cls, mr); sent = v.empty() ? "<dropped>" : shorten(v[0], 120); return v; };
					int oc = REFUSED; std::string exc;
					try { pr::RunResult R = pr::run(*e.inst, ctx.seed, (uint64_t)kc + 1, o);
						oc = R.ok ? ACCEPTED : (R.v_exc ? STDEXC : REFUSED);
						if (R.hung) violation("C12/hang/" + e.name, "protocol run did not terminate (all tasks blocked after end-of-stream was delivered)", d.str());
						count(std::string("prover_side.") + (R.p_exc ? "exception" : "returned")); }
					catch (std::logic_error &x) { violation("C12/non-std-exception/" + e.name, "an exception that is not a std::exception escaped the verifier", J().raw("case", d.str()).kv("sent", sent).str()); }
					if (ident && oc != ACCEPTED) { count("seed_not_accepted"); violation("C12/harness/seed-not-accepted/" + e.name, "honest run refused (harness or library defect, not a C12 verdict)", d.str()); }
					if (ident) count("seed_accepted");
					count("cases"); count("entry." + e.name); count(std::string("class.line-") + (ident ? "id" : lclass_name[cls])); count(std::string("outcome.") + outcome_name[oc]); count("group." + e.group);
					check_rss(e.name);
					case_end(d.str(), true, (kc % 97 == 3) ? J().kv("entry", e.name).kv("prover_line", (long long)line).kv("mutation", ident ? "id" : lclass_name[cls]).kv("sent", sent).kv("outcome", outcome_name[oc]).str() : "");
				}
				continue;
			}
			int ncls = e.kind == K_PGP ? P_NCLASS : (e.kind == K_ARMOR ? A_NCLASS : T_NCLASS);
			for (size_t si = 0; si < e.seeds.size(); si++) for (int cls = 0; cls < ncls; cls++) {
				size_t cat = e.kind == K_PGP ? pcount(e.part[si], cls) : (e.kind == K_ARMOR ? (cls == 0 ? 1 : 64) : tcount(e.tart[si], cls));
				if (!cat) continue;
				size_t cap = cap_of(e.kind, cls, quick, scale);
				// stream operators with 640 MiB line buffers are slow under ASan: fewer variants
				if (e.name.compare(0, 10, "op>>/stack") == 0 && cls != 0) cap = std::max<size_t>(1, cap / 4);
				// the full field-boundary sweep of packet bodies runs through the packet decoder; the block parsers get a sample
				if (e.kind == K_PGP && cls == P_BODYCUT && e.name != "pgp/PacketDecode") cap = std::max<size_t>(1, cap / 40);
				size_t nv = std::min(cat, cap);
				for (size_t j = 0; j < nv; j++) {
					long kc = k++; if (pass == 0) { total++; continue; }
					if (skip_group || (stride > 1 && kc % stride)) continue;
					size_t v = (cat <= cap) ? j : (size_t)(Rng(ctx.seed, fnv(e.name) ^ (si * 1315423911ULL), (uint64_t)cls * 1000003ULL + j).next() % cat);
					const char *cn = e.kind == K_PGP ? pclass_name[cls] : (e.kind == K_ARMOR ? aclass_name[cls] : tclass_name[cls]);
					J d; d.kv("e", e.name).kv("s", e.seeds[si].name).kv("c", cn).kv("v", (long long)v);
					if (!case_begin(kc, d.str())) continue;
					Rng mr = case_rng(kc, 7), lr = case_rng(kc, 9); tl_rng = &lr;
					const std::string &seed = e.seeds[si].data; std::string in;
					// splice partner: another seed of this entry or of the neighbouring entry
					const EntryT &pe = (e.seeds.size() > 1 || ei == 0) ? e : g_entries[ei - 1]; const std::string other = pe.seeds.empty() ? seed : pe.seeds[mr.below(pe.seeds.size())].data;
					if (e.kind == K_PGP) in = b2s(pmutate(e.part[si], cls, v, mr, s2b(other)));
					else if (e.kind == K_ARMOR) in = amutate(seed, cls, v, mr);
					else in = tmutate(e.tart[si], cls, v, mr, other);
					g_cur_entry = e.name; g_cur_input = in; g_dumped = false;
					int oc = e.run(in);
					tl_rng = nullptr;
					bool ident = cls == 0;
					if (ident) { if (oc == ACCEPTED || oc == CHECKFAIL) count("seed_accepted"); else { count("seed_not_accepted"); count("seed_not_accepted." + e.name + "." + e.seeds[si].name); } }
					count("cases"); count("entry." + e.name); count(std::string("class.") + cn); count(std::string("outcome.") + outcome_name[oc]); count("group." + e.group);
					count("x." + e.name + "." + cn);
					check_rss(e.name);
					case_end(e.name + in, in != seed || ident, (kc % 97 == 3) ? J().kv("entry", e.name).kv("seed", e.seeds[si].name).kv("mutation", cn).kv("variant", (long long)v).kv("input", shorten(e.kind == K_PGP || e.kind == K_WIRE ? hex((const unsigned char *)in.data(), std::min<size_t>(in.size(), 200)) : in, 200)).kv("outcome", outcome_name[oc]).str() : "");
				}
			}
		}
	}
	count("entries", (long long)g_entries.size());
	vf::finish();
	_exit(0);   // skip static destructors of the library/world (not under test)
}
