// libFuzzer target: every stream constructor + CheckGroup/CheckKey + destruction
#include "c12_fz.hh"
using namespace c12;
extern "C" int LLVMFuzzerTestOneInput(const uint8_t *data, size_t size) {
	fz_init(false); fz_reseed(data, size); std::string s((const char *)data, size);
	ctor_vtmf(s); ctor_vtmf_canon(s); ctor_vtmf_qr(s); ctor_pedersen_com(s); ctor_pedersen_tcom(s); ctor_groth_skc(s); ctor_groth_vsshe(s); ctor_hoogh_vrhe(s); ctor_eotp(s);
	ctor_pedersen_vss(s); ctor_gjkr_dkg(s); ctor_cgjkr_rvss(s); ctor_cgjkr_zvss(s); ctor_cgjkr_dkg(s); ctor_cgjkr_dss(s);
	return 0;
}
