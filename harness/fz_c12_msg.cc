// libFuzzer target: MessageParse (binary and armored) + Decrypt with the local keys / known session key
#include "c12_fz.hh"
using namespace c12;
extern "C" int LLVMFuzzerTestOneInput(const uint8_t *data, size_t size) {
	fz_init(true); fz_reseed(data, size); std::string s((const char *)data, size);
	if (size && (data[0] & 0x80)) pgp_message(s); else pgp_message_armored(s);
	return 0;
}
