// w_c13.cc — C13: point-to-point channels deliver intact, in order, exactly once.
//
// Single process, single thread.  A sender object A and a receiver object B of
// aiounicast_select / aiounicast_nonblock are connected through pipes whose
// bytes the harness moves itself: it drains A's output descriptors (-> the WIRE
// of a link), optionally applies a fault, and writes the bytes into B's input
// descriptors in fragments of its own choosing; B.Receive(..., timeout 0) is
// called after each fragment.  time/select/sleep are interposed (virtual clock,
// zero-time-out select), gcry_kdf_derive is memoised, so a fresh receiver per
// split point / fault position is affordable.
//
// Reference model: the list of items (scalars, arrays) for which Send returned
// true, per link.  Oracles (DESIGN C13):
//   no fault      received items of a link are a prefix of the sent items at
//                 every moment and equal to them once all bytes are fed
//                 (element-wise for arrays) — for every fragmentation
//   byte faults   (authenticated modes) flattened received values are a
//                 SUBSEQUENCE of the flattened sent values
//   record faults (default mode: authenticated, encrypted, stream) flattened
//                 received values are a PREFIX of the sent values
//   encrypted     equal integers give different ciphertext lines; the base-62 /
//                 decimal text (>= 12 chars) of a sent integer is no substring
//                 of the wire
// Everything else (unauthenticated modes under faults, record faults outside the
// default mode) is executed and counted, not judged.
//
// A sample of sub-cases is written out as complete traces (SEND/WIRE/FAULT/FEED/
// RECV) which ref/c13_trace.py re-judges independently of the C++ verdict.
#include "engine.hh"
#include <aiounicast_select.hh>
#include <aiounicast_nonblock.hh>
#include <fcntl.h>
#include <unistd.h>
#include <errno.h>
#include <algorithm>
#include <set>

using namespace vf;

[[noreturn]] static void hfail(const std::string &msg) {
	fprintf(stderr, "C13-HARNESS-FAILURE: %s\n", msg.c_str()); fflush(stderr); _exit(3);
}

// ------------------------------------------------------------------ values
struct Z {
	mpz_t v;
	Z() { mpz_init(v); }
	Z(const Z &o) { mpz_init_set(v, o.v); }
	explicit Z(unsigned long u) { mpz_init_set_ui(v, u); }
	Z &operator=(const Z &o) { if (this != &o) mpz_set(v, o.v); return *this; }
	~Z() { mpz_clear(v); }
	bool operator==(const Z &o) const { return mpz_cmp(v, o.v) == 0; }
	bool operator!=(const Z &o) const { return mpz_cmp(v, o.v) != 0; }
	std::string dec() const { return mpz_dec(v); }
	std::string b62() const { return mpz_b62(v); }
};
static Z z_pow2(unsigned long e, long add = 0) { Z r(1); mpz_mul_2exp(r.v, r.v, e); if (add >= 0) mpz_add_ui(r.v, r.v, (unsigned long)add); else mpz_sub_ui(r.v, r.v, (unsigned long)(-add)); return r; }
static Z z_pow62(unsigned long e, long add = 0) { Z r; mpz_ui_pow_ui(r.v, 62, e); if (add >= 0) mpz_add_ui(r.v, r.v, (unsigned long)add); else mpz_sub_ui(r.v, r.v, (unsigned long)(-add)); return r; }
static Z z_rand(Rng &r, size_t bits) { Z z; r.mpz_bits(z.v, bits); return z; }

struct Item { bool arr = false; std::vector<Z> v; };
static Item scalar(const Z &z) { Item it; it.arr = false; it.v.push_back(z); return it; }
static Item array(const std::vector<Z> &zs) { Item it; it.arr = true; it.v = zs; return it; }
static bool same_item(const Item &a, const Item &b) {
	if (a.arr != b.arr || a.v.size() != b.v.size()) return false;
	for (size_t i = 0; i < a.v.size(); i++) if (a.v[i] != b.v[i]) return false;
	return true;
}
typedef std::vector<Item> Seq;
static std::vector<Z> flat(const Seq &s) { std::vector<Z> f; for (auto &it : s) for (auto &z : it.v) f.push_back(z); return f; }
static bool is_prefix_items(const Seq &got, const Seq &sent) {
	if (got.size() > sent.size()) return false;
	for (size_t i = 0; i < got.size(); i++) if (!same_item(got[i], sent[i])) return false;
	return true;
}
static bool is_prefix_flat(const std::vector<Z> &g, const std::vector<Z> &s) {
	if (g.size() > s.size()) return false;
	for (size_t i = 0; i < g.size(); i++) if (g[i] != s[i]) return false;
	return true;
}
static bool is_subseq_flat(const std::vector<Z> &g, const std::vector<Z> &s) {
	size_t j = 0;
	for (size_t i = 0; i < g.size(); i++) { while (j < s.size() && s[j] != g[i]) j++; if (j == s.size()) return false; j++; }
	return true;
}
static std::string item_json(const Item &it) {
	std::string s = it.arr ? "[" : "";
	for (size_t i = 0; i < it.v.size(); i++) { if (i) s += ","; s += "\"" + it.v[i].dec() + "\""; }
	if (it.arr) s += "]";
	return s;
}
static std::string seq_json(const Seq &q, size_t maxitems = 40) {
	std::string s = "["; size_t n = 0;
	for (auto &it : q) { if (n) s += ","; if (n++ >= maxitems) { s += "\"...\""; break; } std::string j = item_json(it); s += j.size() > 400 ? ("\"" + jesc(shorten(j, 120)) + "\"") : j; }
	return s + "]";
}

// ------------------------------------------------------------------ modes / classes
struct Mode {
	bool a, e, c;
	std::string name() const { return std::string("a") + (a ? "1" : "0") + "e" + (e ? "1" : "0") + "c" + (c ? "1" : "0"); }
	bool is_default() const { return a && e && !c; }   // the constructors' defaults: authenticated, encrypted, stream (not chunked)
};
static const Mode ALL_MODES[8] = {{true, true, false}, {true, false, false}, {true, true, true}, {false, false, false},
                                  {false, true, false}, {true, false, true}, {false, true, true}, {false, false, true}};
enum { SEL = 0, NB = 1 };
static const char *CLS[2] = {"select", "nonblock"};
static const char *sched_name(size_t s) { return s == aiounicast::aio_scheduler_direct ? "direct" : s == aiounicast::aio_scheduler_roundrobin ? "roundrobin" : "random"; }

static aiounicast *make_obj(int cls, size_t n, const std::vector<int> &in, const std::vector<int> &out, const std::vector<std::string> &keys, size_t sched, const Mode &m) {
	if (cls == SEL) return new aiounicast_select(n, 0, in, out, keys, sched, aiounicast::aio_timeout_extremely_short, m.a, m.e, m.c);
	return new aiounicast_nonblock(n, 0, in, out, keys, sched, aiounicast::aio_timeout_extremely_short, m.a, m.e, m.c);
}
static std::vector<std::string> link_keys(int nl) { std::vector<std::string> k; for (int i = 0; i < nl; i++) k.push_back("c13-link-key-" + std::to_string(i)); return k; }
static void mkpipe(int &r, int &w) { int p[2]; if (pipe2(p, O_NONBLOCK)) hfail("pipe2 failed"); r = p[0]; w = p[1]; if (r >= FD_SETSIZE || w >= FD_SETSIZE) hfail("fd >= FD_SETSIZE"); }

// private state needed to decide quiescence (read between calls only)
struct Peek { unsigned long numRead = 0, buffered = 0, queued = 0; size_t maclen = 0, blklen = 0; };
template <class T> static Peek peek_t(T *o) {
	Peek p; p.numRead = o->numRead; p.maclen = o->maclen; p.blklen = o->blklen;
	for (size_t i = 0; i < o->n; i++) { p.buffered += o->buf_ptr[i]; p.queued += o->buf_mpz[i].size(); }
	return p;
}
static Peek peek(int cls, aiounicast *o) { return cls == SEL ? peek_t(static_cast<aiounicast_select *>(o)) : peek_t(static_cast<aiounicast_nonblock *>(o)); }

// ------------------------------------------------------------------ trace events
struct TEv { char t; int link; long a; long b; std::string s; };   // S link seq item | W link off hex | X kind | F link off len | R link item | E link (eof)
static std::string ev_json(const std::vector<TEv> &evs) {
	std::string s = "[";
	for (size_t i = 0; i < evs.size(); i++) {
		const TEv &e = evs[i]; if (i) s += ",";
		s += "[\""; s += e.t; s += "\"," + std::to_string(e.link);
		if (e.t == 'S') s += "," + std::to_string(e.a) + "," + e.s;
		else if (e.t == 'W') s += "," + std::to_string(e.a) + ",\"" + e.s + "\"";
		else if (e.t == 'F') s += "," + std::to_string(e.a) + "," + std::to_string(e.b);
		else if (e.t == 'R') s += "," + e.s;
		s += "]";
	}
	return s + "]";
}

// ------------------------------------------------------------------ sender side
struct RecPos { size_t start, nl, end; };   // [start,nl) line, nl delimiter, (nl,end) tag
struct Tx {
	int cls; Mode md; int nl; aiounicast *A = nullptr;
	std::vector<int> r, w; int dr = -1, dw = -1;
	std::vector<std::string> wire; std::vector<std::vector<RecPos>> recs; std::vector<size_t> cursor;
	std::vector<Seq> plan; size_t maclen = 0, blklen = 0; bool framing_ok = true; long refused = 0;
	Tx(int cls_, const Mode &m, int nl_) : cls(cls_), md(m), nl(nl_) {
		r.resize(nl); w.resize(nl); mkpipe(dr, dw);
		for (int i = 0; i < nl; i++) mkpipe(r[i], w[i]);
		std::vector<int> in(nl, dr);
		A = make_obj(cls, nl, in, w, link_keys(nl), aiounicast::aio_scheduler_direct, md);
		Peek p = peek(cls, A); maclen = p.maclen; blklen = p.blklen;
		wire.resize(nl); recs.resize(nl); cursor.assign(nl, 0); plan.resize(nl);
	}
	~Tx() { delete A; for (int i = 0; i < nl; i++) { close(r[i]); close(w[i]); } close(dr); close(dw); }
	size_t iv_len() const { return md.e ? blklen : 0; }
	void drain(int l) {
		char buf[65536];
		for (;;) { ssize_t k = read(r[l], buf, sizeof buf); if (k > 0) wire[l].append(buf, (size_t)k); else break; }
		// framing of the anchored mechanism: [IV once] then records "line LF tag"
		if (cursor[l] == 0 && wire[l].size() >= iv_len()) cursor[l] = iv_len();
		else if (cursor[l] == 0 && iv_len()) return;
		for (;;) {
			size_t p = wire[l].find('\n', cursor[l]);
			if (p == std::string::npos || p + 1 + maclen > wire[l].size()) break;
			recs[l].push_back(RecPos{cursor[l], p, p + 1 + maclen}); cursor[l] = p + 1 + maclen;
		}
		if (cursor[l] != wire[l].size()) framing_ok = false;
	}
	// true = accepted by Send (then part of the reference sequence)
	bool send(int l, const Item &it) {
		bool ok;
		size_t before = wire[l].size();
		if (!it.arr) ok = A->Send(it.v[0].v, (size_t)l, 1);
		else { std::vector<mpz_srcptr> ps; for (auto &z : it.v) ps.push_back(z.v); ok = A->Send(ps, (size_t)l, 1); }
		drain(l);
		if (ok) { plan[l].push_back(it); count("messages_sent"); count(it.arr ? "arrays_sent" : "scalars_sent"); }
		else { refused++; if (wire[l].size() != before) count("refused_send_left_bytes"); }
		return ok;
	}
	// region of byte offset o of link l: 0 iv, 1 line, 2 delimiter, 3 tag, 4 end-of-wire
	int region(int l, size_t o) const {
		if (o >= wire[l].size()) return 4;
		if (o < iv_len()) return 0;
		for (auto &rp : recs[l]) if (o < rp.end) return o < rp.nl ? 1 : o == rp.nl ? 2 : 3;
		return 4;
	}
};
static const char *REGION[5] = {"iv", "line", "delim", "tag", "end"};

// ------------------------------------------------------------------ receiver side
struct Rx {
	int cls; Mode md; int nl; size_t sched; time_t rto; aiounicast *B = nullptr;
	std::vector<int> r, w; int dr = -1, dw = -1;
	const std::vector<Seq> *plan; std::vector<Seq> got; std::vector<size_t> fed;
	std::vector<TEv> *ev = nullptr;
	long polls = 0, feeds = 0; bool bad_link = false; long phase_arr = -1;   // non-direct: -1 scalar phase, k array phase of size k
	Rx(int cls_, const Mode &m, int nl_, size_t sched_, time_t rto_, const std::vector<Seq> *plan_) : cls(cls_), md(m), nl(nl_), sched(sched_), rto(rto_), plan(plan_) {
		r.resize(nl); w.resize(nl); mkpipe(dr, dw);
		for (int i = 0; i < nl; i++) mkpipe(r[i], w[i]);
		std::vector<int> out(nl, dw);
		B = make_obj(cls, nl, r, out, link_keys(nl), sched, md);
		got.resize(nl); fed.assign(nl, 0);
	}
	~Rx() { delete B; for (int i = 0; i < nl; i++) { close(r[i]); if (w[i] >= 0) close(w[i]); } close(dr); close(dw); }
	void feed(int l, const char *p, size_t len) {
		if (ev) ev->push_back(TEv{'F', l, (long)fed[l], (long)len, ""});
		size_t off = 0;
		while (off < len) { ssize_t k = write(w[l], p + off, len - off); if (k <= 0) hfail("feeding B's input pipe failed"); off += (size_t)k; }
		fed[l] += len; feeds++;
	}
	void eof(int l) { if (w[l] >= 0) { close(w[l]); w[l] = -1; if (ev) ev->push_back(TEv{'E', l, 0, 0, ""}); } }
	void note(int l, const Item &it) { got[l].push_back(it); count("messages_received"); if (ev) ev->push_back(TEv{'R', l, 0, 0, item_json(it)}); }
	// one Receive call on link l (direct scheduler); the receiver follows the protocol: it asks for
	// an array of k elements exactly where the sender sent one
	bool poll_link(int l) {
		size_t idx = got[l].size();
		const Item *exp = idx < (*plan)[l].size() ? &(*plan)[l][idx] : nullptr;
		size_t from = (size_t)l; bool ok; polls++;
		if (!exp || !exp->arr) { Z m; ok = B->Receive(m.v, from, sched, rto); if (ok) { if (from != (size_t)l) bad_link = true; note(l, scalar(m)); } }
		else {
			std::vector<Z> zs(exp->v.size()); std::vector<mpz_ptr> ps; for (auto &z : zs) ps.push_back(z.v);
			ok = B->Receive(ps, from, sched, rto);
			if (ok) { if (from != (size_t)l) bad_link = true; note(l, array(zs)); }
		}
		return ok;
	}
	// one Receive call with the roundrobin / random scheduler
	bool poll_any() {
		size_t from = (size_t)nl; bool ok; polls++;
		if (phase_arr < 0) { Z m; ok = B->Receive(m.v, from, sched, rto); if (ok) { if (from >= (size_t)nl) { bad_link = true; from = 0; } note((int)from, scalar(m)); } }
		else {
			std::vector<Z> zs((size_t)phase_arr); std::vector<mpz_ptr> ps; for (auto &z : zs) ps.push_back(z.v);
			ok = B->Receive(ps, from, sched, rto);
			if (ok) { if (from >= (size_t)nl) { bad_link = true; from = 0; } note((int)from, array(zs)); }
		}
		return ok;
	}
	bool poll_round() {
		if (sched == aiounicast::aio_scheduler_direct) { bool any = false; for (int l = 0; l < nl; l++) any |= poll_link(l); return any; }
		return poll_any();
	}
	// Receive until nothing moves any more: no delivery and no change of (bytes read, bytes buffered, queued array elements)
	void drain() {
		int need = sched == aiounicast::aio_scheduler_random ? 48 : 3, idle = 0; long guard = 0;
		Peek last = peek(cls, B);
		while (idle < need) {
			bool any = poll_round();
			Peek now = peek(cls, B);
			bool moved = any || now.numRead != last.numRead || now.buffered != last.buffered || now.queued != last.queued;
			last = now; idle = moved ? 0 : idle + 1;
			if (++guard > 2000000) hfail("receiver does not become quiescent");
		}
	}
};

// ------------------------------------------------------------------ per-case bookkeeping
struct CaseStat {
	long long evals = 0; std::set<uint64_t> distinct; std::string sample; std::map<std::string, int> traced;
	int cls; Mode md; std::string family;
};
static std::string mode_tag(int cls, const Mode &m) { return std::string(CLS[cls]) + "." + m.name(); }

static std::string fault_json(const std::string &kind, long off, long aux) { return J().kv("kind", kind).kv("off", off).kv("aux", aux).str(); }

// emits a complete trace for the offline checker
static void emit_trace(const CaseStat &cs, const std::string &sub, size_t sched, const std::string &judge, const std::string &fault, const std::vector<TEv> &pre, const std::vector<TEv> &evs, bool final_, bool cxx_ok, const std::string &cxx_key = "") {
	std::vector<TEv> all(pre); all.insert(all.end(), evs.begin(), evs.end());
	record(J().kv("k", "trace").kv("cls", CLS[cs.cls]).kv("mode", cs.md.name()).kv("auth", cs.md.a).kv("enc", cs.md.e).kv("chunked", cs.md.c)
	           .kv("family", cs.family).kv("sub", sub).kv("sched", sched_name(sched)).kv("judge", judge).raw("fault", fault.empty() ? "null" : fault)
	           .kv("final", final_).kv("cxx_ok", cxx_ok).kv("cxx_key", cxx_key).raw("ev", ev_json(all)).str());
	count("traces_emitted");
}
static bool want_trace(CaseStat &cs, const std::string &kind, int per_kind = 1) { int &n = cs.traced[kind]; if (n >= per_kind) return false; n++; return true; }

// S and W events of a sender (shared prefix of every trace of that exchange)
static std::vector<TEv> tx_events(const Tx &tx, const std::vector<std::string> *wires = nullptr) {
	std::vector<TEv> e;
	for (int l = 0; l < tx.nl; l++) { long q = 0; for (auto &it : tx.plan[l]) e.push_back(TEv{'S', l, q++, 0, item_json(it)}); }
	for (int l = 0; l < tx.nl; l++) { const std::string &w = wires ? (*wires)[l] : tx.wire[l]; e.push_back(TEv{'W', l, 0, 0, hex((const unsigned char *)w.data(), w.size())}); }
	return e;
}

// ------------------------------------------------------------------ value pools
static std::vector<Z> special_values(Rng &r) {
	std::vector<Z> v;
	v.push_back(Z(0)); v.push_back(Z(1)); v.push_back(z_pow2(256, -1)); v.push_back(z_pow2(256, 0)); v.push_back(z_pow2(256, 1));
	v.push_back(Z(4242424242UL)); v.push_back(Z(61)); v.push_back(Z(62)); v.push_back(z_pow2(64, 0));
	v.push_back(z_rand(r, 160)); v.push_back(z_rand(r, 256)); v.push_back(z_rand(r, 512)); v.push_back(z_rand(r, 1024)); v.push_back(z_rand(r, 2048));
	return v;
}
static Z random_value(Rng &r) {
	switch (r.below(12)) {
	case 0: return Z(0);
	case 1: return Z(1);
	case 2: return z_pow2(256, -1);
	case 3: return z_pow2(256, 1);
	case 4: return Z(4242424242UL);
	case 5: return z_rand(r, 1 + r.below(64));
	case 6: return z_rand(r, 2048);
	case 7: return z_rand(r, 1 + r.below(3000));
	default: return z_rand(r, 1 + r.below(600));
	}
}
// largest value Send accepts in this mode: on-wire text of 2047 base-62 digits (found by the maxsize cases; used as a workload value)
static Z near_max_value(const Mode &md, Rng &r) { Z t = z_pow62(2046, 0); Z x = z_rand(r, 12000); mpz_mod(x.v, x.v, t.v); mpz_add(t.v, t.v, x.v); if (md.e) { Z h = z_pow2(256); mpz_sub(t.v, t.v, h.v); } return t; }

// =================================================================== family 1: every split point
struct Schedule { std::vector<size_t> cuts; };   // fragment end offsets, increasing, last == L

// runs one no-fault sub-case on a single link with the direct scheduler; returns false on violation
static bool run_split_sub(CaseStat &cs, const Tx &tx, const std::vector<TEv> &pre, const std::vector<size_t> &cuts, time_t rto, int light, const std::string &sub, bool force_trace) {
	const std::string &W = tx.wire[0]; size_t L = W.size();
	std::vector<TEv> evs; bool tr = force_trace || want_trace(cs, sub);
	Rx rx(tx.cls, tx.md, 1, aiounicast::aio_scheduler_direct, rto, &tx.plan);
	rx.ev = &evs;   // events are cheap; serialised only when traced or violating
	size_t pos = 0; bool ok = true; std::string what, key;
	auto check_prefix = [&]() {
		cs.evals++;
		if (rx.bad_link && ok) { ok = false; key = "bad-link"; what = "Receive reported a sender index that is not the polled link"; }
		if (!is_prefix_items(rx.got[0], tx.plan[0]) && ok) { ok = false; key = "not-a-prefix"; what = "items received so far are not a prefix of the items sent (lost, altered, duplicated or reordered message without any wire fault)"; }
	};
	for (size_t c : cuts) {
		if (c > pos) rx.feed(0, W.data() + pos, c - pos);
		pos = c;
		if (light > 0 && pos < L) { for (int i = 0; i < light; i++) rx.poll_round(); } else rx.drain();
		check_prefix();
	}
	if (pos < L) { rx.feed(0, W.data() + pos, L - pos); pos = L; }
	rx.drain(); check_prefix();
	cs.evals++;
	if (ok && rx.got[0].size() != tx.plan[0].size()) { ok = false; key = "incomplete"; what = "all bytes were fed and the receiver is quiescent, but not every sent item was delivered"; }
	count("feed_steps", rx.feeds); count("receive_calls", rx.polls);
	uint64_t h = fnv(W) ^ fnv(sub); for (size_t c : cuts) h = h * 1099511628211ULL + c; h = h * 31 + (uint64_t)rto * 7 + (uint64_t)light;
	cs.distinct.insert(h);
	if (!ok) {
		violation(std::string("C13/") + CLS[tx.cls] + "/nofault/" + key, what,
		          J().kv("class", CLS[tx.cls]).kv("mode", tx.md.name()).kv("sub", sub).arrn("cuts", cuts).kv("receive_timeout", (long)rto).kv("wire_len", (long)L)
		              .raw("sent", seq_json(tx.plan[0])).raw("received", seq_json(rx.got[0])).kv("wire_hex", shorten(hex((const unsigned char *)W.data(), L), 2400)).str());
		tr = true;
	}
	if (tr) emit_trace(cs, sub, aiounicast::aio_scheduler_direct, "nofault", "", pre, evs, true, ok, key);
	if (cs.sample.empty()) cs.sample = J().kv("class", CLS[tx.cls]).kv("mode", tx.md.name()).kv("family", cs.family).kv("sub", sub).arrn("cuts", cuts).kv("wire_len", (long)L).raw("sent", seq_json(tx.plan[0], 6)).raw("received", seq_json(rx.got[0], 6)).str();
	return ok;
}

static std::vector<Seq> split_exchanges(const Mode &md, Rng &r, bool quick) {
	std::vector<Seq> ex;
	{ Seq s; s.push_back(scalar(Z(0))); ex.push_back(s); }                                                       // 1 message: all pairs of split points
	{ Seq s; s.push_back(scalar(Z(1))); s.push_back(scalar(z_pow2(256, -1))); ex.push_back(s); }                 // 2 messages
	{ Seq s; s.push_back(scalar(z_pow2(256, 1))); s.push_back(scalar(z_rand(r, 512))); s.push_back(scalar(Z(0))); s.push_back(scalar(Z(4242424242UL))); ex.push_back(s); }
	{ Seq s; s.push_back(array({Z(0), Z(1), z_rand(r, 300)})); s.push_back(scalar(z_rand(r, 64))); s.push_back(array({Z(4242424242UL), z_pow2(256, 0)})); s.push_back(scalar(Z(1))); ex.push_back(s); }   // scalar and array API mixed
	{ Seq s; s.push_back(scalar(z_rand(r, 2048))); s.push_back(array({z_rand(r, 1024)})); s.push_back(scalar(z_pow2(256, -1))); ex.push_back(s); }
	if (!quick) {
		{ Seq s; s.push_back(scalar(near_max_value(md, r))); s.push_back(scalar(Z(0))); ex.push_back(s); }
		{ Seq s; s.push_back(array({z_rand(r, 160), z_rand(r, 160), z_rand(r, 160), z_rand(r, 160)})); s.push_back(array({Z(0), Z(0)})); s.push_back(scalar(Z(0))); s.push_back(scalar(z_rand(r, 2000))); ex.push_back(s); }
	}
	return ex;
}

static void case_split(CaseStat &cs, int cls, const Mode &md, size_t exi, Rng &r) {
	bool quick = ctx.quick();
	std::vector<Seq> exs = split_exchanges(md, r, quick);
	const Seq &ex = exs[exi];
	Tx tx(cls, md, 1);
	for (auto &it : ex) if (!tx.send(0, it)) { count("send_refused_ordinary"); }
	if (!tx.framing_ok) violation(std::string("C13/") + CLS[cls] + "/wire/framing", "wire bytes are not [IV] (line LF tag)*", J().kv("mode", md.name()).kv("wire_hex", shorten(hex((const unsigned char *)tx.wire[0].data(), tx.wire[0].size()), 1200)).str());
	std::vector<TEv> pre = tx_events(tx);
	size_t L = tx.wire[0].size();
	count("split_wire_bytes", (long long)L);
	// (a) every single split point, receiver drained at the split
	for (size_t p = 0; p <= L; p++) {
		run_split_sub(cs, tx, pre, {p}, 0, 0, "single", false);
		count("split_points"); count(std::string("split_in_") + REGION[tx.region(0, p)]);
	}
	// (a') the same with a Receive time-out of one (virtual) second: read and parse within one call (select class only:
	// the polling class has no clock source inside Receive)
	if (cls == SEL && (exi == 2 || !quick)) for (size_t p = 0; p <= L; p++) { run_split_sub(cs, tx, pre, {p}, 1, 0, "single-rto1", false); count("split_points_rto1"); }
	// (b) pairs of split points: all pairs for short wires, otherwise all adjacent/near pairs and a seeded sample
	size_t all_pairs = L * (L + 1) / 2, budget = quick ? 7000 : 60000;
	if (all_pairs <= budget) {
		for (size_t p = 0; p <= L; p++) for (size_t q = p + 1; q <= L; q++) { run_split_sub(cs, tx, pre, {p, q}, 0, 0, "pair", false); count("split_pairs"); }
		count("split_pairs_exhaustive_wires");
	} else {
		for (size_t p = 0; p < L; p++) for (size_t d = 1; d <= 2 && p + d <= L; d++) { run_split_sub(cs, tx, pre, {p, p + d}, 0, 0, "pair", false); count("split_pairs"); }
		size_t n = budget > 3 * L ? budget - 3 * L : 0; if (quick && n > 3000) n = 3000;
		for (size_t i = 0; i < n; i++) { size_t p = r.below(L), q = p + 1 + r.below(L - p); run_split_sub(cs, tx, pre, {p, q}, 0, 0, "pair", false); count("split_pairs"); }
	}
	// (c) constant fragment sizes, only two Receive calls between fragments (bytes pile up / trickle in)
	static const size_t CH[] = {1, 2, 3, 5, 7, 8, 15, 16, 17, 31, 32, 33, 47, 64, 100};
	for (size_t c : CH) for (int light = 1; light <= 3; light += 2) {
		std::vector<size_t> cuts; for (size_t p = c; p < L; p += c) cuts.push_back(p); cuts.push_back(L);
		run_split_sub(cs, tx, pre, cuts, 0, light, "const-chunks", false); count("const_chunk_runs");
	}
	// (d) random fragmentations 1..300 / 1..20
	for (int i = 0; i < (quick ? 20 : 200); i++) {
		std::vector<size_t> cuts; size_t p = 0, mx = (i & 1) ? 300 : 20; while (p < L) { p += 1 + r.below(mx); cuts.push_back(std::min(p, L)); }
		run_split_sub(cs, tx, pre, cuts, 0, (int)r.below(3), "random-chunks", false); count("random_chunk_runs");
	}
}

// =================================================================== family 2: long sequences, 3 links, three schedulers
static void case_long(CaseStat &cs, int cls, const Mode &md, size_t sched, Rng &r) {
	bool quick = ctx.quick();
	const int nl = 3; size_t N = quick ? 200 : 2000; int runs = quick ? 3 : 6;
	for (int run = 0; run < runs; run++) {
		Tx tx(cls, md, nl);
		time_t rto = (cls == SEL && run % 3 == 2) ? 1 : 0;
		Rx rx(cls, md, nl, sched, rto, &tx.plan);
		bool direct = sched == aiounicast::aio_scheduler_direct;
		bool tr = (run == 0 && N <= 200 && want_trace(cs, "long"));
		std::vector<TEv> evs; if (tr) rx.ev = &evs;
		std::vector<size_t> fedpos(nl, 0); size_t sent = 0; bool ok = true; std::string key, what;
		std::vector<size_t> checked(nl, 0);
		auto check = [&]() {
			for (int l = 0; l < nl; l++) {
				while (checked[l] < rx.got[l].size()) {
					size_t i = checked[l]++; cs.evals++;
					if (ok && (i >= tx.plan[l].size() || !same_item(rx.got[l][i], tx.plan[l][i]))) { ok = false; key = "not-a-prefix"; what = "items received so far on a link are not a prefix of the items sent on it"; }
				}
			}
			if (ok && rx.bad_link) { ok = false; key = "bad-link"; what = "Receive reported an invalid sender index"; }
		};
		auto pending = [&]() { std::vector<int> p; for (int l = 0; l < nl; l++) if (fedpos[l] < tx.wire[l].size()) p.push_back(l); return p; };
		auto feed_some = [&](size_t mx) {
			std::vector<int> p = pending(); if (p.empty()) return;
			int l = p[r.below(p.size())]; size_t len = std::min<size_t>(1 + r.below(mx), tx.wire[l].size() - fedpos[l]);
			rx.feed(l, tx.wire[l].data() + fedpos[l], len); fedpos[l] += len;
		};
		auto flush_all = [&]() { while (!pending().empty()) { feed_some(300); int k = (int)r.below(3); for (int i = 0; i < k; i++) rx.poll_round(); check(); } rx.drain(); check(); };
		// phases: with the direct scheduler the receiver knows per link what comes next, so scalars and arrays are mixed freely;
		// with roundrobin/random it cannot know the link in advance, so (like protocol code) a phase uses one call type
		size_t phases = direct ? 1 : (quick ? 6 : 20), per_phase = N / phases;
		for (size_t ph = 0; ph < phases && ok; ph++) {
			long karr = -1; if (!direct && (ph & 1)) karr = 1 + (long)r.below(4);
			rx.phase_arr = karr;
			size_t target = sent + per_phase;
			while (sent < target && ok) {
				switch (r.below(4)) {
				case 0: case 1: {
					int l = (int)r.below(nl); Item it;
					bool arr = direct ? (r.below(3) == 0) : (karr >= 0);
					size_t k = direct ? r.below(5) + (r.below(8) ? 1 : 0) : (size_t)karr;   // direct: sizes 0..5 (an empty array is a legal call)
					if (!arr) it = scalar(r.below(60) == 0 ? near_max_value(md, r) : random_value(r));
					else { std::vector<Z> zs; for (size_t i = 0; i < k; i++) zs.push_back(random_value(r)); it = array(zs); }
					if (!tx.send(l, it)) count("send_refused_ordinary");
					sent++; break; }
				case 2: feed_some(300); break;
				default: { int k = 1 + (int)r.below(3); for (int i = 0; i < k; i++) rx.poll_round(); check(); }
				}
			}
			flush_all();
			cs.evals++;
			for (int l = 0; l < nl && ok; l++) if (rx.got[l].size() != tx.plan[l].size()) { ok = false; key = "incomplete"; what = "all bytes were fed and the receiver is quiescent, but not every sent item was delivered"; }
		}
		if (!tx.framing_ok) violation(std::string("C13/") + CLS[cls] + "/wire/framing", "wire bytes are not [IV] (line LF tag)*", J().kv("mode", md.name()).str());
		count("long_runs"); count(std::string("long_runs_") + sched_name(sched)); count("feed_steps", rx.feeds); count("receive_calls", rx.polls);
		count("long_messages", (long long)sent);
		std::string hk; for (int l = 0; l < nl; l++) hk += tx.wire[l]; cs.distinct.insert(fnv(hk) ^ (uint64_t)run);
		if (!ok) {
			J w; w.kv("class", CLS[cls]).kv("mode", md.name()).kv("scheduler", sched_name(sched)).kv("run", run).kv("receive_timeout", (long)rto);
			for (int l = 0; l < nl; l++) { w.raw(("sent" + std::to_string(l)).c_str(), seq_json(tx.plan[l], 12)); w.raw(("received" + std::to_string(l)).c_str(), seq_json(rx.got[l], 12)); w.kv(("n_sent" + std::to_string(l)).c_str(), (long)tx.plan[l].size()); w.kv(("n_received" + std::to_string(l)).c_str(), (long)rx.got[l].size()); }
			violation(std::string("C13/") + CLS[cls] + "/nofault/" + key, what + " (3 links, scheduler " + sched_name(sched) + ")", w.str());
		}
		if (tr) emit_trace(cs, "long", sched, "nofault", "", tx_events(tx), evs, true, ok, key);
		if (cs.sample.empty()) cs.sample = J().kv("class", CLS[cls]).kv("mode", md.name()).kv("family", "long").kv("scheduler", sched_name(sched)).kv("messages", (long)sent).kv("feed_steps", rx.feeds).kv("receive_calls", rx.polls)
		                                         .kv("delivered_link0", (long)rx.got[0].size()).kv("delivered_link1", (long)rx.got[1].size()).kv("delivered_link2", (long)rx.got[2].size()).str();
	}
}

// =================================================================== family 3: size limit of Send
static void case_maxsize(CaseStat &cs, int cls, const Mode &md, Rng &r) {
	static const unsigned long DG[] = {43, 1000, 2040, 2046, 2047, 2048, 2049, 2060, 2200, 2800, 3100, 4000, 4064, 4095, 4096, 4097, 5000, 8200};
	for (unsigned long d : DG) for (int hi = 0; hi < 2; hi++) {
		// t has exactly d base-62 digits on the wire (before encryption): smallest / largest such number
		Z t = hi ? z_pow62(d, -1) : z_pow62(d - 1, 0); Z v = t;
		if (md.e) { Z h = z_pow2(256); if (mpz_cmp(t.v, h.v) < 0) continue; mpz_sub(v.v, t.v, h.v); }
		Tx tx(cls, md, 1);
		bool a0 = tx.send(0, scalar(Z(7))); bool a1 = tx.send(0, scalar(v)); bool a2 = tx.send(0, scalar(Z(9)));
		if (!a0 || !a2) count("send_refused_ordinary");
		record(J().kv("k", "maxsize").kv("cls", CLS[cls]).kv("mode", md.name()).kv("digits", (long)d).kv("hi", hi).kv("accepted", a1).str());
		count(a1 ? "maxsize_accepted" : "maxsize_refused");
		std::vector<TEv> evs; Rx rx(cls, md, 1, aiounicast::aio_scheduler_direct, 0, &tx.plan); rx.ev = &evs;
		const std::string &W = tx.wire[0]; size_t p = 0; bool whole = (hi == 0);
		while (p < W.size()) { size_t len = whole ? W.size() : std::min<size_t>(1 + r.below(300), W.size() - p); rx.feed(0, W.data() + p, len); p += len; rx.poll_round(); }
		rx.drain(); cs.evals++;
		bool ok = is_prefix_items(rx.got[0], tx.plan[0]) && rx.got[0].size() == tx.plan[0].size();
		cs.distinct.insert(fnv(W) + d * 2 + (unsigned long)hi);
		if (!ok) {
			std::string key = a1 ? "accepted-not-delivered" : "refused-but-disturbs-link";
			violation(std::string("C13/") + CLS[cls] + "/send/" + key, a1 ? "Send accepted a big integer that the receiver never delivers intact (and/or the link stops)" : "Send refused a big integer, but the other messages of the link are not delivered intact",
			          J().kv("class", CLS[cls]).kv("mode", md.name()).kv("base62_digits_on_wire", (long)d).kv("largest_of_that_length", hi != 0).kv("value", shorten(v.dec(), 80)).kv("accepted", a1).kv("wire_len", (long)W.size())
			              .kv("items_sent", (long)tx.plan[0].size()).kv("items_received", (long)rx.got[0].size()).raw("received", seq_json(rx.got[0], 3)).str());
		}
		if (!tx.framing_ok) violation(std::string("C13/") + CLS[cls] + "/wire/framing", "wire bytes are not [IV] (line LF tag)*", J().kv("mode", md.name()).kv("digits", (long)d).str());
		if (cs.sample.empty() && a1 && d > 2000) cs.sample = J().kv("class", CLS[cls]).kv("mode", md.name()).kv("family", "maxsize").kv("base62_digits", (long)d).kv("accepted", a1).kv("wire_len", (long)W.size()).kv("delivered", (long)rx.got[0].size()).str();
	}
}


// =================================================================== family 3b: negative integers
// The statement says "integers": a negative value for which Send returns true belongs to the reference sequence.
static void case_negative(CaseStat &cs, int cls, const Mode &md, Rng &r) {
	std::vector<Z> negs;
	{ Z a(1); mpz_neg(a.v, a.v); negs.push_back(a); }
	{ Z a(4242424242UL); mpz_neg(a.v, a.v); negs.push_back(a); }
	{ Z a = z_pow2(256, -1); mpz_neg(a.v, a.v); negs.push_back(a); }
	{ Z a = z_pow2(256, 0); mpz_neg(a.v, a.v); negs.push_back(a); }
	{ Z a = z_pow2(256, 1); mpz_neg(a.v, a.v); negs.push_back(a); }
	{ Z a = z_rand(r, 200); mpz_setbit(a.v, 199); mpz_neg(a.v, a.v); negs.push_back(a); }
	{ Z a = z_rand(r, 700); mpz_setbit(a.v, 699); mpz_neg(a.v, a.v); negs.push_back(a); }
	for (size_t i = 0; i < negs.size(); i++) for (int as_array = 0; as_array < 2; as_array++) {
		Tx tx(cls, md, 1);
		bool a0 = tx.send(0, scalar(Z(7)));
		bool a1 = as_array ? tx.send(0, array({Z(3), negs[i]})) : tx.send(0, scalar(negs[i]));
		bool a2 = tx.send(0, scalar(Z(9)));
		if (!a0 || !a2) count("send_refused_ordinary");
		count(a1 ? "negative_accepted" : "negative_refused");
		if (as_array && !a1) continue;     // a refused array may have left its first element on the wire: not a sequence of accepted items
		std::vector<TEv> evs; Rx rx(cls, md, 1, aiounicast::aio_scheduler_direct, 0, &tx.plan); rx.ev = &evs;
		const std::string &W = tx.wire[0]; size_t p = 0;
		while (p < W.size()) { size_t len = std::min<size_t>(1 + r.below(100), W.size() - p); rx.feed(0, W.data() + p, len); p += len; rx.poll_round(); }
		rx.drain(); cs.evals++;
		bool ok = is_prefix_items(rx.got[0], tx.plan[0]) && rx.got[0].size() == tx.plan[0].size();
		cs.distinct.insert(fnv(W) + i * 2 + (unsigned long)as_array);
		count(ok ? "negative_delivered_or_refused" : "negative_lost");
		if (!ok) {
			violation(std::string("C13/") + CLS[cls] + "/send/negative-accepted-not-delivered", "Send accepted a negative integer that the receiver does not deliver unchanged",
			          J().kv("class", CLS[cls]).kv("mode", md.name()).kv("value", shorten(negs[i].dec(), 100)).kv("inside_array", as_array != 0).kv("accepted", a1)
			              .raw("sent", seq_json(tx.plan[0])).raw("received", seq_json(rx.got[0])).kv("wire_hex", shorten(hex((const unsigned char *)W.data(), W.size()), 1200)).str());
			emit_trace(cs, "negative", aiounicast::aio_scheduler_direct, "nofault", "", tx_events(tx), evs, true, false);
		}
		if (cs.sample.empty()) cs.sample = J().kv("class", CLS[cls]).kv("mode", md.name()).kv("family", "negative").kv("value", shorten(negs[i].dec(), 60)).kv("accepted", a1).raw("received", seq_json(rx.got[0])).str();
	}
}

// =================================================================== family 4: wire faults
struct FaultPlan { std::string kind; long off; long aux; std::string wire; bool eof = false; bool record_level = false; };

// feeds a (faulted) wire on one link with the direct scheduler and returns the flattened received values
static void run_fault_sub(CaseStat &cs, const Tx &tx, const std::vector<TEv> &pre_s, const FaultPlan &fp, int feedpol, Rng &r, const std::string &region) {
	const Mode &md = tx.md; const std::string &W = fp.wire;
	std::vector<TEv> evs; Rx rx(tx.cls, md, 1, aiounicast::aio_scheduler_direct, 0, &tx.plan); rx.ev = &evs;
	size_t p = 0;
	while (p < W.size()) {
		size_t len = feedpol == 0 ? W.size() : feedpol == 1 ? std::min<size_t>(1 + r.below(40), W.size() - p) : 1;
		rx.feed(0, W.data() + p, len); p += len;
		if (feedpol == 0) break;
		rx.poll_round(); if (feedpol == 1) rx.poll_round();
	}
	if (fp.eof) rx.eof(0);
	rx.drain();
	std::vector<Z> g = flat(rx.got[0]), s = flat(tx.plan[0]);
	bool sub = is_subseq_flat(g, s), pre = is_prefix_flat(g, s);
	std::string judge = "none"; bool ok = true;
	if (!fp.record_level && md.a) { judge = "subsequence"; ok = sub; }
	else if (fp.record_level && md.is_default()) { judge = "prefix"; ok = pre; }
	std::string tag = fp.kind + "." + mode_tag(tx.cls, md);
	count("fault." + tag); count(std::string("fault_at_") + region);
	if (judge != "none") { cs.evals++; count("faults_judged"); count(std::string("faults_judged_") + judge); } else { count("faults_not_judged"); count(pre ? "unjudged_prefix_held" : sub ? "unjudged_only_subsequence_held" : "unjudged_neither_held"); }
	if (g.size() == s.size() && pre) count("fault_all_delivered"); else if (g.size() < s.size()) count("fault_lost_messages");
	if (sub && !pre) count("fault_loss_in_the_middle");   // e.g. flipped IV bit: first message dropped, rest delivered
	cs.distinct.insert(fnv(W) ^ fnv(fp.kind) ^ ((uint64_t)fp.off << 20) ^ ((uint64_t)fp.aux << 40) ^ (uint64_t)feedpol);
	bool tr = want_trace(cs, "fault-" + fp.kind);
	std::vector<TEv> pre_ev(pre_s); pre_ev.push_back(TEv{'W', 0, 0, 0, hex((const unsigned char *)W.data(), W.size())});
	if (!ok) {
		std::string key = fp.record_level ? "fault-record/not-a-prefix" : "fault-byte/not-a-subsequence";
		violation(std::string("C13/") + CLS[tx.cls] + "/" + key, fp.record_level ? "record-level wire fault in the default mode: received values are not a prefix of the sent values" : "byte-level wire fault with authentication: a value was delivered that was not sent, or twice, or out of order",
		          J().kv("class", CLS[tx.cls]).kv("mode", md.name()).raw("fault", fault_json(fp.kind, fp.off, fp.aux)).kv("region", region).kv("feed_policy", feedpol).kv("eof", fp.eof)
		              .raw("sent", seq_json(tx.plan[0])).raw("received", seq_json(rx.got[0])).kv("wire_hex", shorten(hex((const unsigned char *)tx.wire[0].data(), tx.wire[0].size()), 2400)).kv("faulted_wire_hex", shorten(hex((const unsigned char *)W.data(), W.size()), 2400)).str());
		tr = true;
	}
	if (tr) emit_trace(cs, fp.kind, aiounicast::aio_scheduler_direct, judge, fault_json(fp.kind, fp.off, fp.aux), pre_ev, evs, true, ok);
	if (cs.sample.empty() && fp.off > 20 && judge != "none") cs.sample = J().kv("class", CLS[tx.cls]).kv("mode", md.name()).kv("family", cs.family).raw("fault", fault_json(fp.kind, fp.off, fp.aux)).kv("region", region).kv("judged_as", judge).kv("sent_values", (long)s.size()).kv("received_values", (long)g.size()).kv("held", ok).str();
}

static Seq fault_exchange(Rng &r) {
	Seq s;
	s.push_back(scalar(Z(0))); s.push_back(scalar(z_rand(r, 256)));
	s.push_back(array({Z(1), z_pow2(256, 1), z_rand(r, 200)}));
	s.push_back(scalar(Z(4242424242UL))); s.push_back(scalar(z_rand(r, 512))); s.push_back(scalar(Z(1)));
	return s;
}
// S events only (the W event of a fault trace is the faulted wire; the pristine wire travels in the fault witness)
static std::vector<TEv> s_events(const Tx &tx) { std::vector<TEv> e; long q = 0; for (auto &it : tx.plan[0]) e.push_back(TEv{'S', 0, q++, 0, item_json(it)}); return e; }

static void case_fault_byte(CaseStat &cs, int cls, const Mode &md, int part, Rng &r) {
	bool quick = ctx.quick();
	Tx tx(cls, md, 1); Seq ex = fault_exchange(r);
	for (auto &it : ex) if (!tx.send(0, it)) count("send_refused_ordinary");
	const std::string &W = tx.wire[0]; size_t L = W.size(); std::vector<TEv> pre = s_events(tx);
	count("fault_wire_bytes", (long long)L);
	long sub = 0;
	auto go = [&](const std::string &kind, long off, long aux, const std::string &w, bool eof) {
		FaultPlan fp; fp.kind = kind; fp.off = off; fp.aux = aux; fp.wire = w; fp.eof = eof;
		int pol = quick ? (int)(sub++ % 2) : (int)(sub++ % 3);
		if (pol == 2 && (sub % 9)) pol = 1;     // byte-wise feeding of every ninth sub-case only (cost)
		run_fault_sub(cs, tx, pre, fp, pol, r, REGION[tx.region(0, (size_t)std::min<long>(off, (long)L))]);
	};
	if (part == 0) {
		// flips: bit 0 and bit 7 (quick) / all eight bits (thorough); overwrite with LF, '|', NUL
		for (size_t o = 0; o < L; o++) {
			for (int b = 0; b < 8; b++) { if (quick && b != 0 && b != 7 && (size_t)b != 1 + (o % 6)) continue; std::string w = W; w[o] = (char)(w[o] ^ (1 << b)); go("flip", (long)o, b, w, false); }
			static const int OV[] = {'\n', '|', 0, '+', '0'};
			for (int c : OV) { if ((unsigned char)W[o] == c) continue; if (quick && c != '\n' && ((o + (size_t)c) % 3)) continue; std::string w = W; w[o] = (char)c; go("overwrite", (long)o, c, w, false); }
		}
	} else {
		for (size_t o = 0; o <= L; o++) {
			{ std::string w = W; int c = (int)r.below(256); w.insert(o, 1, (char)c); go("insert", (long)o, c, w, false); }
			{ std::string w = W; w.insert(o, 1, '\n'); go("insert", (long)o, '\n', w, false); }
			if (o < L) { std::string w = W; w.insert(o, 1, W[o]); go("duplicate-byte", (long)o, (unsigned char)W[o], w, false); }
			if (o < L) { std::string w = W; w.erase(o, 1); go("delete", (long)o, 0, w, false); }
			if (o < L && (!quick || (o % 3) == 0)) { std::string w = W; size_t k = std::min<size_t>(2 + r.below(40), L - o); w.erase(o, k); go("delete-run", (long)o, (long)k, w, false); }
			{ go("truncate", (long)o, 0, W.substr(0, o), true); }
		}
	}
}

static void case_fault_record(CaseStat &cs, int cls, const Mode &md, Rng &r) {
	bool quick = ctx.quick();
	int rounds = (quick ? 2 : 8) * (md.is_default() ? 4 : 1);   // judged in the default mode only: more rounds there
	for (int round = 0; round < rounds; round++) {
		Tx tx(cls, md, 1); Seq ex = fault_exchange(r);
		for (auto &it : ex) if (!tx.send(0, it)) count("send_refused_ordinary");
		// a second session on the same link (same keys, own IV, other values): source of foreign records with valid tags
		Tx fx(cls, md, 1); Seq ex2 = fault_exchange(r);
		for (auto &it : ex2) fx.send(0, it);
		const std::string &W = tx.wire[0]; std::vector<TEv> pre = s_events(tx);
		const std::vector<RecPos> &R = tx.recs[0], &F = fx.recs[0]; size_t nr = R.size();
		if (nr < 4 || F.size() != nr) { count("record_fault_setup_failed"); continue; }
		auto rec = [&](size_t i) { return W.substr(R[i].start, R[i].end - R[i].start); };
		auto frec = [&](size_t i) { return fx.wire[0].substr(F[i].start, F[i].end - F[i].start); };
		std::string head = W.substr(0, R[0].start);
		auto build = [&](const std::vector<std::string> &parts) { std::string w = head; for (auto &p : parts) w += p; return w; };
		std::vector<std::string> base; for (size_t i = 0; i < nr; i++) base.push_back(rec(i));
		long sub = 0;
		auto go = [&](const std::string &kind, long i, long j, const std::vector<std::string> &parts) {
			FaultPlan fp; fp.kind = kind; fp.off = i; fp.aux = j; fp.wire = build(parts); fp.record_level = true;
			run_fault_sub(cs, tx, pre, fp, (int)(sub++ % 2), r, "record"); count("record_faults");
		};
		for (size_t i = 0; i < nr; i++) { std::vector<std::string> p = base; p.erase(p.begin() + (long)i); go("remove-record", (long)i, 0, p); }
		for (size_t i = 0; i < nr; i++) for (size_t j = i + 1; j <= nr; j++) { if (j > i + 2 && j != nr && r.below(3)) continue; std::vector<std::string> p = base; p.insert(p.begin() + (long)j, base[i]); go("replay-record", (long)i, (long)j, p); }
		for (size_t i = 0; i + 1 < nr; i++) { std::vector<std::string> p = base; std::swap(p[i], p[i + 1]); go("swap-records", (long)i, (long)i + 1, p); }
		for (size_t i = 0; i + 2 < nr; i++) { std::vector<std::string> p = base; std::swap(p[i], p[i + 2]); go("swap-records", (long)i, (long)i + 2, p); }
		for (size_t i = 0; i <= nr; i++) {
			// foreign record with the sequence number the receiver expects next / another one
			if (i < nr) { std::vector<std::string> p = base; p.insert(p.begin() + (long)i, frec(i)); go("insert-foreign-record", (long)i, (long)i, p); }
			{ size_t k = r.below(nr); std::vector<std::string> p = base; p.insert(p.begin() + (long)i, frec(k)); go("insert-foreign-record", (long)i, (long)k, p); }
			// forged record: random base-62 line, random tag
			{ std::string line; size_t n = 1 + r.below(120); static const char *D = "0123456789ABCDEFGHIJKLMNOPQRSTUVWXYZabcdefghijklmnopqrstuvwxyz"; for (size_t k = 0; k < n; k++) line += D[r.below(62)];
			  if (md.c && md.e) line += "|" + std::to_string(1 + r.below(9));
			  line += '\n'; for (size_t k = 0; k < tx.maclen; k++) line += (char)r.below(256);
			  std::vector<std::string> p = base; p.insert(p.begin() + (long)i, line); go("insert-forged-record", (long)i, (long)n, p); }
		}
		if (!tx.framing_ok || !fx.framing_ok) violation(std::string("C13/") + CLS[cls] + "/wire/framing", "wire bytes are not [IV] (line LF tag)*", J().kv("mode", md.name()).str());
	}
}

// =================================================================== family 5: confidentiality smoke test (encrypted modes)
static std::string cipher_part(const Tx &tx, size_t i) {
	const RecPos &rp = tx.recs[0][i]; std::string line = tx.wire[0].substr(rp.start, rp.nl - rp.start);
	size_t bar = line.find('|'); return bar == std::string::npos ? line : line.substr(0, bar);
}
static void case_conf(CaseStat &cs, int cls, const Mode &md, Rng &r) {
	int rounds = ctx.quick() ? 30 : 300;
	for (int round = 0; round < rounds; round++) {
		Tx tx(cls, md, 1);
		static const size_t BITS[] = {72, 80, 128, 160, 256, 257, 512, 1024, 2048, 3000};
		Z v = z_rand(r, BITS[r.below(10)]); mpz_setbit(v.v, 71);   // >= 72 bits: base-62 text >= 13 chars
		Z u = z_rand(r, BITS[r.below(10)]); mpz_setbit(u.v, 71);
		Seq ex; ex.push_back(scalar(v)); ex.push_back(scalar(v)); ex.push_back(scalar(u)); ex.push_back(array({v, u, v})); ex.push_back(scalar(v));
		for (auto &it : ex) if (!tx.send(0, it)) count("send_refused_ordinary");
		if (!tx.framing_ok) { violation(std::string("C13/") + CLS[cls] + "/wire/framing", "wire bytes are not [IV] (line LF tag)*", J().kv("mode", md.name()).str()); continue; }
		std::vector<Z> s = flat(tx.plan[0]); const std::string &W = tx.wire[0];
		size_t nrec = tx.recs[0].size();
		// records carrying equal integers: pairwise different ciphertext
		std::vector<size_t> idx; { size_t k = 0; for (auto &it : tx.plan[0]) { for (size_t e = 0; e < it.v.size(); e++) idx.push_back(k++); if (it.arr && md.c && cls == SEL) k++; } }   // chunked select arrays carry a delimiter record
		for (size_t i = 0; i < s.size(); i++) for (size_t j = i + 1; j < s.size(); j++) {
			if (s[i] != s[j] || idx[i] >= nrec || idx[j] >= nrec) continue;
			cs.evals++; count("conf_equal_pairs");
			if (md.e) {
				if (cipher_part(tx, idx[i]) == cipher_part(tx, idx[j]))
					violation(std::string("C13/") + CLS[cls] + "/conf/equal-ciphertext", "two sends of the same integer on one link produced the same ciphertext line", J().kv("class", CLS[cls]).kv("mode", md.name()).kv("value", s[i].dec()).kv("record_i", (long)idx[i]).kv("record_j", (long)idx[j]).kv("line", cipher_part(tx, idx[i])).str());
			} else if (cipher_part(tx, idx[i]) == cipher_part(tx, idx[j])) count("plain_equal_lines_seen");   // sensitivity of the comparison: plain modes do repeat
		}
		for (auto &z : {v, u}) {
			std::string t62 = z.b62(), t10 = z.dec(); cs.evals++; count("conf_digit_checks");
			bool f62 = t62.size() >= 12 && W.find(t62) != std::string::npos, f10 = t10.size() >= 12 && W.find(t10) != std::string::npos;
			if (md.e) { if (f62 || f10) violation(std::string("C13/") + CLS[cls] + "/conf/digits-on-wire", "the text of a sent integer appears on the wire of an encrypted link", J().kv("class", CLS[cls]).kv("mode", md.name()).kv("value", z.dec()).kv("base62", t62).kv("found_base62", f62).kv("found_decimal", f10).kv("wire_hex", shorten(hex((const unsigned char *)W.data(), W.size()), 1600)).str()); }
			else if (f62) count("plain_digits_seen");
		}
		// the exchange is also delivered
		Rx rx(cls, md, 1, aiounicast::aio_scheduler_direct, 0, &tx.plan);
		size_t p = 0; while (p < W.size()) { size_t len = std::min<size_t>(1 + r.below(64), W.size() - p); rx.feed(0, W.data() + p, len); p += len; rx.poll_round(); }
		rx.drain(); cs.evals++;
		if (!(is_prefix_items(rx.got[0], tx.plan[0]) && rx.got[0].size() == tx.plan[0].size()))
			violation(std::string("C13/") + CLS[cls] + "/nofault/incomplete", "all bytes were fed and the receiver is quiescent, but not every sent item was delivered", J().kv("class", CLS[cls]).kv("mode", md.name()).kv("family", "conf").raw("sent", seq_json(tx.plan[0])).raw("received", seq_json(rx.got[0])).str());
		cs.distinct.insert(fnv(W));
		if (cs.sample.empty()) cs.sample = J().kv("class", CLS[cls]).kv("mode", md.name()).kv("family", "conf").kv("value_base62", shorten(v.b62(), 40)).kv("cipher_line_1", shorten(cipher_part(tx, 0), 60)).kv("cipher_line_2", shorten(cipher_part(tx, 1), 60)).str();
	}
}

// =================================================================== main: deterministic case list
int main(int argc, char **argv) {
	init(argc, argv);
	null_cerr();
	if (!init_libTMCG()) { fprintf(stderr, "init_libTMCG failed\n"); return 2; }
	bool quick = ctx.quick();
	long k = 0;
	size_t nex = quick ? 5 : 7;
	static const size_t SCHEDS[3] = {aiounicast::aio_scheduler_direct, aiounicast::aio_scheduler_roundrobin, aiounicast::aio_scheduler_random};
	struct Job { std::string family; int cls; int mode; long p; };
	std::vector<Job> jobs;
	for (int cls = 0; cls < 2; cls++) for (int mi = 0; mi < 8; mi++) {
		for (size_t e = 0; e < nex; e++) jobs.push_back(Job{"split", cls, mi, (long)e});
		for (int s = 0; s < 3; s++) jobs.push_back(Job{"long", cls, mi, s});
		jobs.push_back(Job{"maxsize", cls, mi, 0});
		jobs.push_back(Job{"negative", cls, mi, 0});
		jobs.push_back(Job{"fault-byte", cls, mi, 0}); jobs.push_back(Job{"fault-byte", cls, mi, 1});
		jobs.push_back(Job{"fault-record", cls, mi, 0});
		jobs.push_back(Job{"conf", cls, mi, 0});
	}
	for (auto &jb : jobs) {
		const Mode &md = ALL_MODES[jb.mode];
		J d; d.kv("family", jb.family).kv("class", CLS[jb.cls]).kv("mode", md.name()).kv("p", jb.p);
		long me = k++;
		if (!case_begin(me, d.str())) continue;
		Rng r = case_rng(me, 1); tl_rng = &r; g_vtime = 1600000000L;
		Rng wr = case_rng(me, 2);    // workload choices (values, fragment sizes, fault bytes); r feeds the library (IVs, random scheduler)
		CaseStat cs; cs.cls = jb.cls; cs.md = md; cs.family = jb.family;
		if (jb.family == "split") case_split(cs, jb.cls, md, (size_t)jb.p, wr);
		else if (jb.family == "long") case_long(cs, jb.cls, md, SCHEDS[jb.p], wr);
		else if (jb.family == "maxsize") case_maxsize(cs, jb.cls, md, wr);
		else if (jb.family == "negative") case_negative(cs, jb.cls, md, wr);
		else if (jb.family == "fault-byte") case_fault_byte(cs, jb.cls, md, (int)jb.p, wr);
		else if (jb.family == "fault-record") case_fault_record(cs, jb.cls, md, wr);
		else if (jb.family == "conf") case_conf(cs, jb.cls, md, wr);
		count("cases." + jb.family);
		tl_rng = nullptr;
		case_end(d.str(), cs.evals > 0, cs.sample, cs.evals, (long long)cs.distinct.size());
	}
	finish();
	return 0;
}
