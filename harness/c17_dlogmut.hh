// c17_dlogmut.hh — the C05 "dlog family" mutation catalogue for integer lines (DESIGN C05),
// shared by w_c17.cc (peer commitment/opening lines) and w_c18.cc (chooser first move).
// Lines carry one integer in the library's base-62 text (TMCG_MPZ_IO_BASE).
#pragma once
#include "vf.hh"
#include <string>
#include <vector>

namespace dlogmut {

enum { V_PLUS_1 = 0, V_TIMES_G, NEG_V, ZERO, ONE, P_MINUS_1, P, Q, V_PLUS_Q, V_PLUS_P, OVERSIZED,
       P_MINUS_V, SWAP_NEXT, DELETE_LINE, DROP_LAST_CHAR, EMPTY_LINE, NMUT };

static const char *const NAME[NMUT] = {"v+1", "v*g mod p", "-v", "0", "1", "p-1", "p", "q", "v+q", "v+p",
                                       "v+2^4096", "p-v (order 2q)", "swap with next line", "delete line",
                                       "drop last character", "empty line"};

// the reduced catalogue of the quick tier still contains one mutation of every class that a
// distinct check has to catch (other member, out of range by q / by p, non-member, structure)
inline bool in_reduced(int m) { return m == V_PLUS_1 || m == V_TIMES_G || m == V_PLUS_Q || m == V_PLUS_P || m == P_MINUS_V || m == SWAP_NEXT || m == DELETE_LINE || m == ONE; }

// Applies mutation m to line k of `lines` (in place).  Returns false when the mutation is not
// applicable (no next line, line is not a number) or leaves the transmitted text unchanged
// (equivalent: skipped and counted by the caller).
inline bool apply(std::vector<std::string> &lines, size_t k, int m, mpz_srcptr p, mpz_srcptr q, mpz_srcptr g) {
	if (k >= lines.size()) return false;
	const std::vector<std::string> orig = lines;
	mpz_t v, r; mpz_init(v); mpz_init(r);
	bool isnum = !lines[k].empty() && mpz_set_str(v, lines[k].c_str(), 62) == 0;
	bool ok = true, numeric = true;
	switch (m) {
	case V_PLUS_1: mpz_add_ui(r, v, 1); break;
	case V_TIMES_G: mpz_mul(r, v, g); mpz_mod(r, r, p); break;
	case NEG_V: mpz_neg(r, v); break;
	case ZERO: mpz_set_ui(r, 0); break;
	case ONE: mpz_set_ui(r, 1); break;
	case P_MINUS_1: mpz_sub_ui(r, p, 1); break;
	case P: mpz_set(r, p); break;
	case Q: mpz_set(r, q); break;
	case V_PLUS_Q: mpz_add(r, v, q); break;
	case V_PLUS_P: mpz_add(r, v, p); break;
	case OVERSIZED: mpz_set_ui(r, 1); mpz_mul_2exp(r, r, 4096); mpz_add(r, r, v); break;
	case P_MINUS_V: mpz_sub(r, p, v); break;
	case SWAP_NEXT: numeric = false; if (k + 1 >= lines.size()) ok = false; else std::swap(lines[k], lines[k + 1]); break;
	case DELETE_LINE: numeric = false; lines.erase(lines.begin() + k); break;
	case DROP_LAST_CHAR: numeric = false; if (lines[k].empty()) ok = false; else lines[k].pop_back(); break;
	case EMPTY_LINE: numeric = false; lines[k].clear(); break;
	default: ok = false;
	}
	if (ok && numeric) { if (!isnum) ok = false; else lines[k] = vf::mpz_b62(r); }
	mpz_clear(v); mpz_clear(r);
	if (ok && lines == orig) ok = false;
	if (!ok) lines = orig;
	return ok;
}

} // namespace dlogmut
