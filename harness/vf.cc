#include "vf.hh"
#include <cstdlib>
#include <fstream>
#include <unistd.h>
#include <signal.h>
#include <execinfo.h>
#include <chrono>

namespace vf {

thread_local Rng *tl_rng = nullptr;
Rng g_rng;
bool g_real_rng = false;
Ctx ctx;

std::string jesc(const std::string &s) {
	std::string o; o.reserve(s.size() + 8);
	for (unsigned char c : s) {
		switch (c) {
		case '"': o += "\\\""; break; case '\\': o += "\\\\"; break;
		case '\n': o += "\\n"; break; case '\r': o += "\\r"; break; case '\t': o += "\\t"; break;
		default:
			if (c < 0x20 || c >= 0x7f) { char b[8]; snprintf(b, sizeof b, "\\u%04x", c); o += b; }
			else o += (char)c;
		}
	}
	return o;
}
std::string mpz_dec(mpz_srcptr v) { char *c = mpz_get_str(nullptr, 10, v); std::string r(c); free(c); return r; }
std::string mpz_b62(mpz_srcptr v) { char *c = mpz_get_str(nullptr, 62, v); std::string r(c); free(c); return r; }
std::string hex(const unsigned char *p, size_t n) { static const char *d = "0123456789abcdef"; std::string r; r.reserve(2 * n); for (size_t i = 0; i < n; i++) { r += d[p[i] >> 4]; r += d[p[i] & 15]; } return r; }
std::string shorten(const std::string &s, size_t max) { if (s.size() <= max) return s; return s.substr(0, max / 2) + "...(" + std::to_string(s.size()) + ")..." + s.substr(s.size() - max / 2); }
uint64_t fnv(const std::string &s) { uint64_t h = 1469598103934665603ULL; for (unsigned char c : s) { h ^= c; h *= 1099511628211ULL; } return h; }
std::string read_file(const std::string &p) { std::ifstream f(p, std::ios::binary); std::stringstream ss; ss << f.rdbuf(); return ss.str(); }

static double now_ms() { return std::chrono::duration<double, std::milli>(std::chrono::steady_clock::now().time_since_epoch()).count(); }
static double g_case_t0 = 0;
static void flush_counts();
static void emit(const std::string &line) {
	if (!ctx.out) return;
	fputs(line.c_str(), ctx.out); fputc('\n', ctx.out); fflush(ctx.out);
}

static void crash_handler(int sig) {
	// only used in non-sanitizer builds (ASan installs its own handlers and
	// prints a symbolised stack itself)
	void *bt[48]; int n = backtrace(bt, 48);
	const char *nm = sig == SIGSEGV ? "SIGSEGV" : sig == SIGFPE ? "SIGFPE" : sig == SIGBUS ? "SIGBUS" : sig == SIGILL ? "SIGILL" : "SIGNAL";
	dprintf(2, "\nVF-CRASH signal=%s case=%ld\n", nm, ctx.cur_case);
	backtrace_symbols_fd(bt, n, 2);
	signal(sig, SIG_DFL); raise(sig);
}

void init(int argc, char **argv) {
	for (int i = 1; i < argc; i++) {
		std::string a = argv[i];
		auto val = [&]() -> std::string { if (i + 1 >= argc) { fprintf(stderr, "missing value for %s\n", a.c_str()); exit(2); } return argv[++i]; };
		if (a == "--tier") ctx.tier = val();
		else if (a == "--seed") ctx.seed = strtoull(val().c_str(), 0, 10);
		else if (a == "--shard") ctx.shard = atol(val().c_str());
		else if (a == "--nshards") ctx.nshards = atol(val().c_str());
		else if (a == "--start") ctx.start = atol(val().c_str());
		else if (a == "--only") ctx.only = atol(val().c_str());
		else if (a == "--out") ctx.out_path = val();
		else if (a == "--replay") ctx.replay_path = val();
		else if (a == "--workdir") ctx.workdir = val();
		else if (a == "--opt") { std::string kv = val(); size_t p = kv.find('='); if (p == std::string::npos) ctx.opt[kv] = "1"; else ctx.opt[kv.substr(0, p)] = kv.substr(p + 1); }
		else { fprintf(stderr, "unknown argument %s\n", a.c_str()); exit(2); }
	}
	if (ctx.out_path.empty() || ctx.out_path == "-") ctx.out = stdout;
	else { ctx.out = fopen(ctx.out_path.c_str(), "a"); if (!ctx.out) { perror("open --out"); exit(2); } }
	g_rng.seed(ctx.seed, 0xC0FFEE);
#if !defined(__SANITIZE_ADDRESS__)
	signal(SIGSEGV, crash_handler); signal(SIGFPE, crash_handler); signal(SIGBUS, crash_handler); signal(SIGILL, crash_handler);
#endif
}

bool case_begin(long k, const std::string &desc) {
	if (ctx.only >= 0) { if (k != ctx.only) return false; }
	else {
		if (k < ctx.start) return false;
		if (ctx.nshards > 1 && (k % ctx.nshards) != ctx.shard) return false;
	}
	ctx.cur_case = k; g_case_t0 = now_ms();
	emit(J().kv("t", "begin").kv("case", k).kv("desc", desc).str());
	return true;
}

void case_end(const std::string &key, bool nontrivial, const std::string &sample_json, long long evals, long long distinct) {
	J j; j.kv("t", "end").kv("case", ctx.cur_case);
	char kb[24]; snprintf(kb, sizeof kb, "%016llx", (unsigned long long)fnv(key));
	j.kv("key", kb).kv("nt", nontrivial).kv("ms", (long long)(now_ms() - g_case_t0));
	if (evals != 1) j.kv("evals", evals);
	if (distinct != 1) j.kv("distinct", distinct);
	if (!sample_json.empty() && ctx.samples_emitted < ctx.max_samples) { j.raw("sample", sample_json); ctx.samples_emitted++; }
	emit(j.str());
	ctx.cur_case = -1;
	flush_counts();
}

void violation(const std::string &key, const std::string &what, const std::string &witness_json) {
	emit(J().kv("t", "viol").kv("case", ctx.cur_case).kv("key", key).kv("what", what).raw("witness", witness_json.empty() ? "{}" : witness_json).str());
}

void record(const std::string &json) {
	// json is an object "{...}"; splice the type tag in
	if (json.find("\"t\":") != std::string::npos && (json.compare(0, 5, "{\"t\":") == 0 || json.find(",\"t\":") != std::string::npos)) {
		fprintf(stderr, "vf::record: a record must not have a field named \"t\" (it would override the line type)\n"); abort();
	}
	if (json.size() >= 2 && json[0] == '{') {
		std::string body = json.substr(1);
		emit(std::string("{\"t\":\"rec\",\"case\":") + std::to_string(ctx.cur_case) + (body == "}" ? "" : ",") + body);
	}
}

void count(const std::string &name, long long n) { ctx.counts[name] += n; }

// counters are written after every case (as deltas), so a worker that dies later loses nothing
static void flush_counts() {
	if (ctx.counts.empty()) return;
	std::string c = "{"; bool first = true;
	for (auto &kv : ctx.counts) { if (!first) c += ","; first = false; c += "\"" + jesc(kv.first) + "\":" + std::to_string(kv.second); }
	c += "}";
	emit(J().kv("t", "count").raw("counts", c).str());
	ctx.counts.clear();
}

void finish() {
	flush_counts();
	emit(J().kv("t", "done").str());
	if (ctx.out && ctx.out != stdout) fclose(ctx.out);
	ctx.out = nullptr;
}

} // namespace vf
