"""Build cache: compiles libTMCG from the *current working tree* of a repo
directory and the harness binaries, keyed by a hash over all inputs.

flavours
  san   g++ -O1 -g ASan+UBSan (memory-class checks fatal, value-class recover)
  fast  g++ -O2 -g, asserts on
  fuzz  clang++-14 libFuzzer + ASan + UBSan
"""
import fcntl
import hashlib
import os
import shutil
import subprocess
import sys
import time
from concurrent.futures import ThreadPoolExecutor

VERIF = os.path.dirname(os.path.dirname(os.path.dirname(os.path.abspath(__file__))))
BUILD_ROOT = os.path.join(VERIF, ".build")
GUARD = "LIBTMCG_VERIF_HOOKS"

UB_RECOVER = "enum,bool,shift,signed-integer-overflow,float-cast-overflow"
FLAVOURS = {
    "san": dict(cxx="g++", flags=[
        "-std=gnu++14", "-O1", "-g", "-fno-omit-frame-pointer",
        "-fsanitize=address,undefined", "-fno-sanitize-recover=all",
        "-fsanitize-recover=" + UB_RECOVER], link=[]),
    "fast": dict(cxx="g++", flags=["-std=gnu++14", "-O2", "-g"], link=[]),
    "fuzz": dict(cxx="clang++-14", flags=[
        "-std=gnu++14", "-O1", "-g", "-fno-omit-frame-pointer",
        "-fsanitize=fuzzer-no-link,address,undefined",
        "-fno-sanitize-recover=all", "-fsanitize-recover=" + UB_RECOVER,
        "-fno-sanitize=object-size,vptr,function"], link=[]),
}
EXCLUDE_SRC = {"gen_primes.cc"}


class BuildError(Exception):
    pass


def _sha(paths, extra=""):
    h = hashlib.sha256()
    h.update(extra.encode())
    for p in sorted(paths):
        h.update(os.path.basename(p).encode() + b"\0")
        with open(p, "rb") as f:
            h.update(f.read())
        h.update(b"\0")
    return h.hexdigest()[:16]


def repo_sources(repo):
    src = os.path.join(repo, "src")
    ccs = sorted(os.path.join(src, f) for f in os.listdir(src)
                 if f.endswith(".cc") and f not in EXCLUDE_SRC)
    hhs = sorted(os.path.join(src, f) for f in os.listdir(src) if f.endswith(".hh"))
    cfg = os.path.join(repo, "libTMCG_config.h")
    if not os.path.exists(cfg):
        cfg = os.path.join(VERIF, "config", "libTMCG_config.h")
    return ccs, hhs, cfg


def repo_tree_hash(repo):
    ccs, hhs, cfg = repo_sources(repo)
    return _sha(ccs + hhs + [cfg])


def _run(cmd, errfile):
    with open(errfile, "wb") as ef:
        r = subprocess.run(cmd, stdout=ef, stderr=subprocess.STDOUT)
    return r.returncode


def _prune(prefix, keep):
    """keep the `keep` most recently used dirs starting with prefix"""
    keep = max(keep, int(os.environ.get("VERIF_KEEP_BUILDS", "24")))
    try:
        ds = [d for d in os.listdir(BUILD_ROOT) if d.startswith(prefix)]
    except FileNotFoundError:
        return
    ds.sort(key=lambda d: os.path.getmtime(os.path.join(BUILD_ROOT, d)), reverse=True)
    for d in ds[keep:]:
        shutil.rmtree(os.path.join(BUILD_ROOT, d), ignore_errors=True)


def _take_slot(nslots=2):
    """at most `nslots` library builds run at a time on this machine (each uses 16 compilers)"""
    while True:
        for i in range(nslots):
            f = open(os.path.join(BUILD_ROOT, "lock-build-slot-%d" % i), "w")
            try:
                fcntl.flock(f, fcntl.LOCK_EX | fcntl.LOCK_NB)
                return f
            except OSError:
                f.close()
        time.sleep(2)


def ensure_lib(flavour, repo, jobs=16, log=sys.stderr):
    """returns (libdir, key); libdir contains libTMCG.a and inc/ (headers)"""
    fl = FLAVOURS[flavour]
    ccs, hhs, cfg = repo_sources(repo)
    key = _sha(ccs + hhs + [cfg], extra=flavour + " ".join(fl["flags"]) + fl["cxx"])
    os.makedirs(BUILD_ROOT, exist_ok=True)
    out = os.path.join(BUILD_ROOT, "lib-%s-%s" % (flavour, key))
    # fast path without any lock: the directory is renamed into place atomically
    if os.path.exists(os.path.join(out, "libTMCG.a")):
        try:
            os.utime(out, None)
        except OSError:
            pass
        return out, key
    lock = open(os.path.join(BUILD_ROOT, "lock-lib-%s-%s" % (flavour, key)), "w")
    fcntl.flock(lock, fcntl.LOCK_EX)
    try:
        if os.path.exists(os.path.join(out, "libTMCG.a")):
            os.utime(out, None)
            return out, key
        slot = _take_slot()
        t0 = time.time()
        print("[build] libTMCG (%s) from %s -> %s" % (flavour, repo, out), file=log)
        tmp = out + ".tmp"
        shutil.rmtree(tmp, ignore_errors=True)
        os.makedirs(os.path.join(tmp, "obj"))
        inc = os.path.join(tmp, "inc")
        os.makedirs(inc)
        # private copy of the headers + config so harness builds see exactly
        # what the library was built from
        for h in hhs:
            shutil.copy(h, inc)
        shutil.copy(cfg, os.path.join(inc, "libTMCG_config.h"))
        # sources are copied too: sanitizer reports then carry stable paths
        srcd = os.path.join(tmp, "src")
        os.makedirs(srcd)
        for c in ccs:
            shutil.copy(c, srcd)

        def comp(c):
            b = os.path.basename(c)[:-3]
            cmd = [fl["cxx"]] + fl["flags"] + ["-DHAVE_CONFIG_H", "-D" + GUARD,
                                              "-I" + inc, "-c",
                                              os.path.join(srcd, b + ".cc"),
                                              "-o", os.path.join(tmp, "obj", b + ".o")]
            rc = _run(cmd, os.path.join(tmp, "obj", b + ".err"))
            return (b, rc)
        # biggest first
        order = sorted(ccs, key=lambda p: -os.path.getsize(p))
        with ThreadPoolExecutor(jobs) as ex:
            res = list(ex.map(comp, order))
        bad = [b for b, rc in res if rc != 0]
        if bad:
            msg = ""
            for b in bad[:3]:
                with open(os.path.join(tmp, "obj", b + ".err"), errors="replace") as f:
                    msg += f.read()[-3000:]
            raise BuildError("library compile failed (%s): %s\n%s" % (flavour, bad, msg))
        objs = sorted(os.path.join(tmp, "obj", f) for f in os.listdir(os.path.join(tmp, "obj")) if f.endswith(".o"))
        if subprocess.run(["ar", "rcs", os.path.join(tmp, "libTMCG.a")] + objs).returncode:
            raise BuildError("ar failed")
        shutil.rmtree(out, ignore_errors=True)
        # the path of src/ is baked into debug info: move tmp -> out by rename
        os.rename(tmp, out)
        print("[build] libTMCG (%s) done in %.0fs" % (flavour, time.time() - t0), file=log)
        slot.close()
        _prune("lib-%s-" % flavour, 2)
        return out, key
    finally:
        fcntl.flock(lock, fcntl.LOCK_UN)
        lock.close()


HARNESS_COMMON = ["vf.cc", "interpose.cc"]


def ensure_harness(name, flavour, repo, extra_src=(), extra_flags=(), no_interpose=False,
                   log=sys.stderr):
    """build harness/<name>.cc against the lib of `flavour`; returns path of binary"""
    libdir, lkey = ensure_lib(flavour, repo, log=log)
    fl = FLAVOURS[flavour]
    hd = os.path.join(VERIF, "harness")
    hdrs = sorted(os.path.join(hd, f) for f in os.listdir(hd) if f.endswith(".hh"))
    common = [c for c in HARNESS_COMMON if not (no_interpose and c == "interpose.cc")]
    srcs = [os.path.join(hd, name + ".cc")] + [os.path.join(hd, c) for c in common] + \
           [os.path.join(hd, e) for e in extra_src]
    hkey = _sha(srcs + hdrs, extra=lkey + flavour + " ".join(extra_flags) + str(no_interpose))
    out = os.path.join(BUILD_ROOT, "h-%s-%s-%s" % (name, flavour, hkey))
    binp = os.path.join(out, name)
    if os.path.exists(binp):
        try:
            os.utime(out, None)
        except OSError:
            pass
        return binp
    lock = open(os.path.join(BUILD_ROOT, "lock-h-%s-%s-%s" % (name, flavour, hkey)), "w")
    fcntl.flock(lock, fcntl.LOCK_EX)
    try:
        if os.path.exists(binp):
            os.utime(out, None)
            return binp
        t0 = time.time()
        tmp = out + ".tmp"
        shutil.rmtree(tmp, ignore_errors=True)
        os.makedirs(tmp)
        flags = list(fl["flags"])
        if flavour == "fuzz":
            flags = [f.replace("fuzzer-no-link", "fuzzer") for f in flags]
        objs = []

        def comp(s):
            o = os.path.join(tmp, os.path.basename(s)[:-3] + ".o")
            cmd = [fl["cxx"]] + flags + list(extra_flags) + [
                "-DHAVE_CONFIG_H", "-D" + GUARD, "-fno-access-control", "-Wno-deprecated-declarations",
                "-I" + os.path.join(libdir, "inc"), "-I" + hd, "-c", s, "-o", o]
            rc = _run(cmd, o + ".err")
            return (s, o, rc)
        with ThreadPoolExecutor(8) as ex:
            res = list(ex.map(comp, srcs))
        for s, o, rc in res:
            if rc:
                with open(o + ".err", errors="replace") as f:
                    raise BuildError("harness compile failed: %s\n%s" % (s, f.read()[-6000:]))
            objs.append(o)
        cmd = [fl["cxx"]] + flags + ["-rdynamic", "-o", os.path.join(tmp, name)] + objs + [
            os.path.join(libdir, "libTMCG.a"), "-lgcrypt", "-lgpg-error", "-lgmp", "-lpthread", "-ldl"]
        rc = _run(cmd, os.path.join(tmp, "link.err"))
        if rc:
            with open(os.path.join(tmp, "link.err"), errors="replace") as f:
                raise BuildError("harness link failed: %s\n%s" % (name, f.read()[-6000:]))
        shutil.rmtree(out, ignore_errors=True)
        os.rename(tmp, out)
        print("[build] harness %s (%s) in %.0fs" % (name, flavour, time.time() - t0), file=log)
        _prune("h-%s-%s-" % (name, flavour), 2)
        return binp
    finally:
        fcntl.flock(lock, fcntl.LOCK_UN)
        lock.close()
