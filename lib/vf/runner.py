"""Crash-isolating shard runner + verdict/evidence logic shared by all checks."""
import fnmatch
import json
import os
import re
import shutil
import signal
import subprocess
import sys
import threading
import time
from concurrent.futures import ThreadPoolExecutor

from . import build

VERIF = build.VERIF
RUNS = os.path.join(VERIF, "runs")

SAN_ENV = {
    "ASAN_OPTIONS": "abort_on_error=1:detect_leaks=0:allocator_may_return_null=1:"
                    "max_allocation_size_mb=3072:handle_sigfpe=1:detect_stack_use_after_return=0:"
                    "malloc_context_size=8:quarantine_size_mb=32",
    "UBSAN_OPTIONS": "print_stacktrace=1:halt_on_error=0",
}


class Harness(Exception):
    """harness failure / inconclusive -> exit 2"""


def _demangle_first_lib_frame(text):
    """pick the innermost stack frames that lie in library sources"""
    frames = []
    for m in re.finditer(r"#\d+ 0x[0-9a-f]+ in (.+?) (\S+?):\d+", text):
        fn, path = m.group(1), m.group(2)
        fn = re.sub(r"\(.*$", "", fn).strip()
        if "/src/" in path and "/lib-" in path:
            frames.append(fn)
    return frames


def crash_key(stderr_text, rc):
    """derive a stable violation key (kind/site) from what a dead worker left behind"""
    t = stderr_text
    m = re.search(r"Assertion `(.+?)' failed", t)
    if m:
        fm = re.search(r"([A-Za-z_0-9:~<>]+)\(?[^\n]*: Assertion `", t)
        fn = ""
        m2 = re.search(r": ([^:\n]+): Assertion `", t)
        if m2:
            fn = re.sub(r"\(.*$", "", m2.group(1)).split()[-1] if m2.group(1) else ""
        return "abort/assert/%s/%s" % (fn, re.sub(r"\s+", " ", m.group(1))[:80])
    m = re.search(r"ERROR: AddressSanitizer: (\S+)", t)
    if m:
        kind = m.group(1)
        if kind == "requested":  # allocation size exceeds
            kind = "allocation-size-too-big"
        fr = _demangle_first_lib_frame(t[m.start():])
        site = "/".join(fr[:2]) if fr else "?"
        return "asan/%s/%s" % (kind, site)
    m = re.search(r"runtime error: ([^\n]+)", t)
    if m and ("SUMMARY: UndefinedBehaviorSanitizer" in t) and rc != 0:
        fr = _demangle_first_lib_frame(t[m.start():])
        what = re.sub(r"0x[0-9a-f]+", "ADDR", m.group(1))
        what = re.sub(r"-?\d+", "N", what)[:60]
        return "ubsan/%s/%s" % (what, "/".join(fr[:2]) if fr else "?")
    m = re.search(r"terminate called after throwing an instance of '([^']+)'", t)
    if m:
        return "abort/uncaught/%s" % m.group(1)
    if "terminate called" in t:
        return "abort/terminate"
    m = re.search(r"VF-CRASH signal=(\S+)", t)
    if m:
        fns = re.findall(r"\(([A-Za-z_0-9]+)\+0x", t[m.end():])
        fns = [f for f in fns if not f.startswith(("_ZN2vf", "main", "__libc", "_start"))]
        return "signal/%s/%s" % (m.group(1), "/".join(fns[:2]))
    if rc < 0:
        try:
            return "signal/%s" % signal.Signals(-rc).name
        except Exception:
            return "signal/%d" % -rc
    return "exit/%d" % rc


def count_ubsan_observations(text):
    obs = {}
    for m in re.finditer(r"runtime error: ([^\n]+)", text):
        w = re.sub(r"0x[0-9a-f]+", "ADDR", m.group(1))
        w = re.sub(r"-?\d+", "N", w)[:80]
        obs[w] = obs.get(w, 0) + 1
    return obs


class ShardResult:
    def __init__(self):
        self.lines = []          # parsed json objects except rec (kept separately)
        self.recs = []
        self.viols = []          # dicts: key, what, witness, case
        self.ends = []
        self.counts = {}
        self.crashes = []        # (case, key, stderr tail)
        self.hangs = []
        self.ubsan_obs = {}
        self.done = False
        self.descs = {}


def _take_run_slot():
    """machine-wide bound on concurrently running shard processes (several checks may run at once)"""
    import fcntl
    n = int(os.environ.get("VERIF_RUN_SLOTS", "20"))
    d = os.path.join(VERIF, ".build")
    os.makedirs(d, exist_ok=True)
    while True:
        for i in range(n):
            f = open(os.path.join(d, "lock-run-slot-%d" % i), "w")
            try:
                fcntl.flock(f, fcntl.LOCK_EX | fcntl.LOCK_NB)
                return f
            except OSError:
                f.close()
        time.sleep(0.5)


def run_shard(binary, args, shard, nshards, outdir, env, case_timeout, total_timeout,
              keep_recs=True, rec_sink=None):
    """run one shard to completion, restarting after crashes; returns ShardResult"""
    res = ShardResult()
    start = 0
    attempt = 0
    t_begin = time.time()
    retry_hang = {}
    while True:
        attempt += 1
        outp = os.path.join(outdir, "shard%02d.a%d.jsonl" % (shard, attempt))
        errp = os.path.join(outdir, "shard%02d.a%d.stderr" % (shard, attempt))
        sanp = os.path.join(outdir, "shard%02d.a%d.san" % (shard, attempt))
        e = dict(os.environ)
        e.update(env)
        for k in ("ASAN_OPTIONS", "UBSAN_OPTIONS"):
            if k in e:
                e[k] = e[k] + ":log_path=" + sanp
        cmd = [binary] + args + ["--shard", str(shard), "--nshards", str(nshards),
                                 "--start", str(start), "--out", outp]
        tw = time.time()
        slot = _take_run_slot()
        t_begin += time.time() - tw      # waiting for a machine-wide slot is not run time
        with open(errp, "wb") as ef:
            p = subprocess.Popen(cmd, stdout=ef, stderr=subprocess.STDOUT, env=e, cwd=outdir)
            # watchdog on progress of the output file
            last_size = -1
            last_change = time.time()
            killed = None
            while True:
                try:
                    p.wait(timeout=1.0)
                    break
                except subprocess.TimeoutExpired:
                    pass
                try:
                    sz = os.path.getsize(outp)
                except OSError:
                    sz = 0
                now = time.time()
                if sz != last_size:
                    last_size = sz
                    last_change = now
                if now - last_change > case_timeout:
                    killed = "hang"
                    p.kill()
                    p.wait()
                    break
                if now - t_begin > total_timeout:
                    killed = "budget"
                    p.kill()
                    p.wait()
                    break
        rc = p.returncode
        slot.close()
        open_case = None
        done = False
        last_case = start - 1
        try:
            with open(outp, errors="replace") as f:
                for line in f:
                    line = line.strip()
                    if not line:
                        continue
                    try:
                        o = json.loads(line)
                    except ValueError:
                        continue   # torn last line of a killed worker
                    t = o.get("t")
                    if t == "begin":
                        open_case = o["case"]
                        last_case = o["case"]
                        res.descs[o["case"]] = o.get("desc", "")
                    elif t == "end":
                        res.ends.append(o)
                        open_case = None
                    elif t == "viol":
                        res.viols.append(o)
                    elif t == "rec":
                        if rec_sink is not None:
                            rec_sink(o)
                        elif keep_recs:
                            res.recs.append(o)
                    elif t == "count":
                        for k, v in o.get("counts", {}).items():
                            res.counts[k] = res.counts.get(k, 0) + v
                    elif t == "done":
                        done = True
        except FileNotFoundError:
            pass
        errtxt = ""
        for pth in [errp] + [os.path.join(outdir, f) for f in os.listdir(outdir)
                             if f.startswith(os.path.basename(sanp))]:
            try:
                with open(pth, errors="replace") as f:
                    errtxt += f.read()[-200000:]
            except OSError:
                pass
        for k, v in count_ubsan_observations(errtxt).items():
            res.ubsan_obs[k] = res.ubsan_obs.get(k, 0) + v
        if done and rc == 0:
            res.done = True
            return res
        if killed == "budget":
            raise Harness("shard %d exceeded the total time budget (%ds)" % (shard, total_timeout))
        if killed == "hang":
            c = open_case if open_case is not None else last_case + 1
            if retry_hang.get(c, 0) < 1:
                retry_hang[c] = 1
                start = c            # once more, fresh process
                continue
            res.hangs.append((c, res.descs.get(c, "")))
            start = c + 1
            continue
        # died
        if open_case is None:
            if done:
                # crashed after "done" (static destructors): report against last case
                res.crashes.append((last_case, crash_key(errtxt, rc) + "/at-exit", errtxt[-6000:]))
                res.done = True
                return res
            # died outside a case: setup failure -> harness problem
            raise Harness("worker died outside a case (rc=%s) shard=%d start=%d:\n%s" %
                          (rc, shard, start, errtxt[-4000:]))
        res.crashes.append((open_case, crash_key(errtxt, rc), errtxt[-8000:]))
        start = open_case + 1
        if attempt > 400:
            raise Harness("too many worker restarts in shard %d" % shard)


def load_known(path=None):
    path = path or os.path.join(VERIF, "KNOWN_FINDINGS.txt")
    openf = []
    try:
        with open(path) as f:
            for line in f:
                line = line.strip()
                if not line or line.startswith("#"):
                    continue
                if line.startswith("open:"):
                    m = re.match(r"open:\s+property=(\S+)\s+key=(\S+)\s+(.*)$", line)
                    if m:
                        openf.append((m.group(1), m.group(2), m.group(3)))
    except FileNotFoundError:
        pass
    return openf


def run_check(prop, tier, seed, repo, stages, level, rule, assumptions,
              floors=None, post=None, extra_cov=None, min_distinct=2):
    """Run all stages (each: dict(binary, args, nshards, flavour, env, case_timeout,
    total_timeout, keep_recs, name)), merge, apply known findings, write evidence,
    print verdict.  post(recs, merged) -> list of violation dicts (offline checker);
    it may add to merged['obs'].  returns (exit code, merged)."""
    t0 = time.time()
    rundir = os.path.join(RUNS, "%s-%s-%d-%d" % (prop, tier, seed, os.getpid()))
    shutil.rmtree(rundir, ignore_errors=True)
    os.makedirs(rundir)
    merged = dict(evals=0, keys={}, samples=[], counts={}, viols=[], recs=[], obs={}, ubsan={},
                  cases=0, nontrivial_cases=0, stages=[])
    for si, st in enumerate(stages):
        flavour = st.get("flavour", "san")
        e = dict(SAN_ENV) if flavour in ("san",) else {}
        for ek, evv in (st.get("env") or {}).items():
            if ek in ("ASAN_OPTIONS", "UBSAN_OPTIONS") and ek in e:
                e[ek] = e[ek] + ":" + evv       # later options win inside the sanitizer runtime
            else:
                e[ek] = evv
        base_args = ["--tier", tier, "--seed", str(seed)] + list(st.get("args", []))
        nshards = st.get("nshards", 16)
        sdir = os.path.join(rundir, "s%d" % si)
        os.makedirs(sdir)
        errors = []
        ts = time.time()

        def one(i, st=st, base_args=base_args, nshards=nshards, sdir=sdir, e=e):
            try:
                return run_shard(st["binary"], base_args, i, nshards, sdir, e,
                                 st.get("case_timeout", 120), st.get("total_timeout", 3600),
                                 keep_recs=st.get("keep_recs", True))
            except Harness as h:
                errors.append(str(h))
                return None
        with ThreadPoolExecutor(nshards) as ex:
            results = list(ex.map(one, range(nshards)))
        if errors:
            print("HARNESS-FAILURE property=%s %s" % (prop, errors[0]))
            return 2, None
        scases = 0
        for r in results:
            for o in r.ends:
                merged["cases"] += 1
                scases += 1
                merged["evals"] += o.get("evals", 1)
                if o.get("nt"):
                    merged["nontrivial_cases"] += 1
                    k = o.get("key")
                    d = o.get("distinct", 1)
                    if k not in merged["keys"] or merged["keys"][k] < d:
                        merged["keys"][k] = d
                if "sample" in o and len(merged["samples"]) < 6:
                    merged["samples"].append(o["sample"])
                if "ms" in o:
                    merged.setdefault("slow", []).append((o["ms"], r.descs.get(o.get("case"), "")))
            for k, v in r.counts.items():
                merged["counts"][k] = merged["counts"].get(k, 0) + v
            for k, v in r.ubsan_obs.items():
                merged["ubsan"][k] = merged["ubsan"].get(k, 0) + v
            for v in r.viols:
                merged["viols"].append(dict(key=v["key"], what=v.get("what", ""), case=v.get("case"),
                                            witness=v.get("witness", {}), desc=r.descs.get(v.get("case"), ""),
                                            stage=si))
            for (c, key, tail) in r.crashes:
                merged["viols"].append(dict(key="%s/%s" % (prop, key) if not key.startswith(prop) else key,
                                            what="worker died in case %s (%s)" % (c, r.descs.get(c, "")),
                                            case=c, witness=dict(stderr_tail=tail[-3000:]),
                                            desc=r.descs.get(c, ""), stage=si))
            for (c, d) in r.hangs:
                merged["viols"].append(dict(key="%s/hang/%s" % (prop, re.sub(r"[^A-Za-z0-9_.:=-]+", "_", d)[:60]),
                                            what="no progress for %ds in case %s (%s), twice" %
                                                 (st.get("case_timeout", 120), c, d),
                                            case=c, witness={}, desc=d, stage=si))
            merged["recs"].extend(r.recs)
        merged["stages"].append(dict(name=st.get("name", os.path.basename(st["binary"])), flavour=flavour,
                                     shards=nshards, cases=scases, wall_s=round(time.time() - ts, 1),
                                     args=base_args, binary=st["binary"]))
    if post:
        try:
            pv = post(merged["recs"], merged) or []
        except Harness as h:
            print("HARNESS-FAILURE property=%s %s" % (prop, h))
            return 2, None
        for v in pv:
            v.setdefault("stage", 0)
        merged["viols"].extend(pv)
    # known findings
    known = load_known()
    new_by_key = {}
    known_hit = {}
    for v in merged["viols"]:
        k = v["key"]
        hit = None
        for (pid, kk, what) in known:
            if pid == prop and (kk == k or ("*" in kk and fnmatch.fnmatchcase(k, kk.replace("[", "[[]")))):
                hit = what
                break
        if hit is not None:
            known_hit.setdefault(k, hit)
        else:
            new_by_key.setdefault(k, v)
    # one line per listed finding (several violation keys may match one pattern line)
    by_what = {}
    for k, what in sorted(known_hit.items()):
        by_what.setdefault(what, []).append(k)
    for what, ks in by_what.items():
        print("KNOWN-FINDING: property=%s %s [matched %d key(s), e.g. %s]" % (prop, what, len(ks), ks[0]))
    rc = 0
    replay_dir = os.path.join(rundir, "replay")
    for k, v in sorted(new_by_key.items()):
        os.makedirs(replay_dir, exist_ok=True)
        rp = os.path.join(replay_dir, re.sub(r"[^A-Za-z0-9_.=-]+", "_", k)[:100] + ".json")
        with open(rp, "w") as f:
            stg = merged["stages"][v["stage"]] if v.get("stage") is not None and v["stage"] < len(merged["stages"]) else {}
            json.dump(dict(property=prop, key=k, what=v["what"], case=v.get("case"), desc=v.get("desc"),
                           seed=seed, tier=tier, args=stg.get("args"), binary=stg.get("binary"),
                           flavour=stg.get("flavour"), witness=v.get("witness")), f, indent=1)
        print("VIOLATION property=%s replay=%s" % (prop, rp))
        print("  key=%s :: %s" % (k, v["what"][:300]))
        rc = 1
    distinct = sum(merged["keys"].values())
    # floors -> inconclusive
    inconclusive = []
    for name, minimum in (floors or {}).items():
        got = merged["counts"].get(name, 0)
        if name == "__cases__":
            got = merged["cases"]
        if got < minimum:
            inconclusive.append("%s=%d<%d" % (name, got, minimum))
    wall = time.time() - t0
    cov = dict(evaluations=int(merged["evals"]), distinct_nontrivial=int(distinct), rule=rule,
               samples=merged["samples"][:6] or [{"note": "no sample emitted"}],
               cases=merged["cases"], nontrivial_cases=merged["nontrivial_cases"],
               counters=merged["counts"], observations=merged["obs"],
               ubsan_value_class_observations=merged["ubsan"],
               stages=[{k: v for k, v in st.items() if k not in ("binary", "args")} for st in merged["stages"]],
               repo=repo, repo_tree_hash=build.repo_tree_hash(repo),
               slowest_cases_ms=sorted(merged.get("slow", []), reverse=True)[:5],
               known_findings_matched=sorted(known_hit.keys()),
               new_violation_keys=sorted(new_by_key.keys()))
    if extra_cov:
        cov.update(extra_cov)
    ev = dict(property_id=prop, tier=tier, seed=int(seed), level=level, coverage=cov,
              assumptions=assumptions, wall_s=round(wall, 2), violations=len(new_by_key))
    os.makedirs(os.path.join(VERIF, "evidence"), exist_ok=True)
    evp = os.path.join(VERIF, "evidence", "%s.json" % prop)
    if os.path.realpath(repo) != os.path.realpath("/repo"):
        # a run against a scratch copy (mutant testing) must not replace the evidence of /repo
        evp = os.path.join(rundir, "evidence-%s.json" % prop)
    with open(evp + ".tmp", "w") as f:
        json.dump(ev, f, indent=1, sort_keys=True)
    os.replace(evp + ".tmp", evp)
    if rc == 0 and inconclusive:
        print("INCONCLUSIVE property=%s floors not reached: %s" % (prop, ", ".join(inconclusive)))
        return 2, merged
    if rc == 0 and distinct < min_distinct:
        print("INCONCLUSIVE property=%s too few distinct non-trivial cases (%d)" % (prop, distinct))
        return 2, merged
    if rc == 0:
        print("OK property=%s tier=%s seed=%d cases=%d evaluations=%d distinct_nontrivial=%d wall=%.1fs"
              % (prop, tier, seed, merged["cases"], merged["evals"], distinct, wall))
        # keep disk usage bounded: drop the run directory of a clean run
        shutil.rmtree(rundir, ignore_errors=True)
    return rc, merged
