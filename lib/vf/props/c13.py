"""C13 — point-to-point channels deliver intact, in order, exactly once (harness/w_c13.cc)."""
from . import stage
from .. import runner

import c13_trace   # ref/c13_trace.py: offline trace checker, independent of the C++ oracle

FLAVOURS = ["san"]

# every sub-case builds a fresh receiver (4 KiB buffers, MAC and cipher contexts); with ASan's default
# 256 MiB quarantine the allocator thrashes the caches (4-8x slower), so the quarantine is reduced
# (heap-overflow detection is unaffected; a use-after-free is still caught within the 8 MiB window)
ENV = {"ASAN_OPTIONS": runner.SAN_ENV["ASAN_OPTIONS"] + ":quarantine_size_mb=8"}

CLASSES = ["select", "nonblock"]
MODES = ["a%de%dc%d" % (a, e, c) for a in (0, 1) for e in (0, 1) for c in (0, 1)]
BYTE_FAULTS = ["flip", "overwrite", "insert", "duplicate-byte", "delete", "delete-run", "truncate"]
RECORD_FAULTS = ["remove-record", "replay-record", "swap-records", "insert-foreign-record", "insert-forged-record"]


def prebuild(repo):
    stage("w_c13", repo)


def post(recs, merged):
    """offline trace checker + observations.  Gaps in the records (a worker that died inside a case loses the
    records of that case) are a harness failure only when no violation explains them."""
    counts = merged["counts"]
    harness = []
    if counts.get("send_refused_ordinary", 0):
        harness.append("Send refused %d ordinary workload values: the reference sequences are not what the "
                       "workload intended" % counts["send_refused_ordinary"])
    if counts.get("record_fault_setup_failed", 0):
        harness.append("record-level fault cases could not locate the records on the wire")
    res = c13_trace.check_records(recs)
    if res["malformed"]:
        harness.append("malformed trace: " + res["malformed"][0])
    if res["disagreements"]:
        harness.append("C++ oracle and offline trace checker disagree: " + res["disagreements"][0])
    merged["obs"]["traces_checked_offline"] = res["checked"]
    merged["obs"]["traces_by_clause"] = res["by_judge"]
    # size limit of Send as observed: per class.mode the longest accepted and the shortest refused value (base-62 digits on the wire)
    lim = {}
    for r in recs:
        if r.get("k") != "maxsize":
            continue
        d = lim.setdefault("%s.%s" % (r["cls"], r["mode"]), dict(max_accepted_digits=0, min_refused_digits=None))
        if r["accepted"]:
            d["max_accepted_digits"] = max(d["max_accepted_digits"], r["digits"])
        elif d["min_refused_digits"] is None or r["digits"] < d["min_refused_digits"]:
            d["min_refused_digits"] = r["digits"]
    merged["obs"]["send_size_limit"] = lim
    for k, d in sorted(lim.items()):
        if d["min_refused_digits"] is None or d["max_accepted_digits"] == 0:
            harness.append("size-limit probes of %s saw only one outcome: %r" % (k, d))
    if harness and not merged["viols"] and not res["violations"]:
        raise runner.Harness(harness[0])
    if harness:
        merged["obs"]["harness_remarks"] = harness[:5]
    return res["violations"]


def spec(tier, seed, repo):
    q = tier == "quick"
    floors = {
        "split_points": 18000, "split_pairs": 200000 if q else 1000000, "split_pairs_exhaustive_wires": 16,
        "split_in_iv": 400, "split_in_line": 12000, "split_in_delim": 200, "split_in_tag": 3000, "split_points_rto1": 1200,
        "const_chunk_runs": 2000, "random_chunk_runs": 1500,
        "long_runs_direct": 48, "long_runs_roundrobin": 48, "long_runs_random": 48, "long_messages": 25000 if q else 500000,
        "arrays_sent": 8000, "scalars_sent": 12000, "messages_received": 1000000,
        "maxsize_accepted": 100, "maxsize_refused": 300,
        "faults_judged_subsequence": 40000, "faults_judged_prefix": 600, "faults_not_judged": 20000,
        "fault_at_iv": 800, "fault_at_line": 40000, "fault_at_delim": 800, "fault_at_tag": 12000, "fault_at_record": 2000,
        "fault_loss_in_the_middle": 100,      # e.g. IV bit flipped: first message lost, the rest delivered (DESIGN note)
        "conf_equal_pairs": 2000, "conf_digit_checks": 400,
        "plain_digits_seen": 200, "plain_equal_lines_seen": 1000,   # the two confidentiality probes do fire on unencrypted links
        "traces_emitted": 400, "negative_accepted": 100,
    }
    for k in BYTE_FAULTS:
        for c in CLASSES:
            for m in MODES:
                floors["fault.%s.%s.%s" % (k, c, m)] = 60
    for k in RECORD_FAULTS:
        for c in CLASSES:
            for m in MODES:
                floors["fault.%s.%s.%s" % (k, c, m)] = 10
    return dict(
        stages=[stage("w_c13", repo, nshards=16, case_timeout=1800 if q else 3600, env=ENV)],
        level="fault_enumeration",
        rule="sender object A and receiver object B of one channel class (select|nonblock) and one of the 8 flag "
             "combinations {authenticated, encrypted, chunked}; the harness moves the bytes between A's output and B's "
             "input descriptors itself.  One sub-case = (wire bytes of an exchange, fragmentation = list of cut offsets, "
             "Receive time-out, fault or none) run against a fresh receiver.  Families: split (every single split point, "
             "all pairs of split points for wires up to ~115 bytes and adjacent + sampled pairs otherwise, constant and "
             "random fragment sizes; exchanges of 1-4 items mixing scalars and arrays, values 0, 1, 2^256-1, 2^256, 2^256+1, "
             "the array delimiter, random up to 2048 bits), long (3 links, 200/2000 items per run, random interleaving of "
             "Send, feed 1..300 bytes, Receive; schedulers direct, roundrobin, random), maxsize (values of 43..8200 base-62 "
             "digits around the limit of Send: accepted => delivered, refused => link undisturbed), negative, fault-byte "
             "(flip, overwrite, insert, duplicate, delete, delete-run, truncate+EOF at every offset), fault-record (remove, "
             "replay, swap, foreign record with valid tag from a second session, forged record), conf (equal integers => "
             "different ciphertext lines; base-62/decimal text not on the wire).  evaluations = oracle comparisons; distinct = "
             "distinct (wire, fragmentation/fault) tuples per case (hash set).  A sample of sub-cases per family and every "
             "violating one is written as a full SEND/WIRE/FEED/FAULT/RECV trace and re-judged by ref/c13_trace.py.",
        assumptions=[
            "reference model: per link the items for which Send returned true, in call order",
            "the receiver follows the protocol: with the direct scheduler it asks for an array of k elements exactly where "
            "the sender sent one; with roundrobin/random a phase uses one call type on all links (the API cannot do otherwise)",
            "byte-level faults are judged in authenticated modes only (subsequence), record-level faults in the default mode "
            "(authenticated, encrypted, not chunked) only (prefix); all other fault runs are executed and counted, not judged",
            "time(), select(), sleep() are interposed: Receive is called with time-out 0 (and 1 virtual second for the select class)",
            "sender-side partial writes (full pipe) are not produced; confidentiality is a smoke test only",
            "a garbled first cipher block after an IV fault parses as a valid >= 2^256 number with probability < 2^-30 per case (ignored)",
        ],
        floors=floors,
        post=post,
    )
