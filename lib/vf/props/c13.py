from . import stage
from .. import runner

FLAVOURS = ["san"]

# every sub-case builds a fresh receiver (4 KiB buffers, MAC and cipher contexts); with ASan's default
# 256 MiB quarantine the allocator thrashes the caches (4-8x slower), so the quarantine is reduced
ENV = {"ASAN_OPTIONS": runner.SAN_ENV["ASAN_OPTIONS"] + ":quarantine_size_mb=8"}


def prebuild(repo):
    stage("w_c13", repo)


def spec(tier, seed, repo):
    return dict(
        stages=[stage("w_c13", repo, nshards=16, case_timeout=600 if tier == "quick" else 3000, env=ENV)],
        level="fault_enumeration",
        rule="tbd",
        assumptions=[],
        floors={},
    )
