"""C12 — untrusted input never corrupts memory or kills the process.

stages
  0  w_c12 ("san")       structure-aware mutator: ~23 600 (quick) / ~3.4*10^5 (thorough) mutated inputs over
                          111 entry points, one input per case (crash isolation + exact replay)
  1  fuzz driver ("fuzz") libFuzzer targets fz_c12_<t>, one shard per target, triage loop in
                          ref/c12_fuzzdrv.py (artifact re-run alone -> violation key, restart with next seed)
  2  memcheck (thorough)  valgrind replay of ~2 000 sampled quick cases on the "fast" binary
Seeds for the fuzz targets are dumped by the san binary itself (`--opt dump=`) into
.build/c12-seeds-<harness key>-<seed>/ (generated with the library of the tree under test).
"""
import hashlib
import json
import os
import shutil
import stat
import subprocess
import sys
import tempfile

from . import stage
from .. import build, runner

FLAVOURS = ["san", "fuzz", "fast"]
VERIF = build.VERIF
CORPUS = os.path.join(VERIF, "corpus", "c12")
DRV = os.path.join(VERIF, "ref", "c12_fuzzdrv.py")

TARGETS_QUICK = ["pkt", "blk", "msg", "sig"]                 # the OpenPGP targets
TARGETS_ALL = ["imp", "key", "grp", "pkt", "blk", "msg", "sig"]
# executions per target (bounded by count, never by time); kept below the depth soaked clean (notes/c12.md)
RUNS = {"quick": dict(pkt=40000, sig=40000, msg=20000, blk=3000),
        "thorough": dict(pkt=2000000, sig=2000000, key=2000000, msg=1000000, blk=300000, imp=60000, grp=30000)}

ENTRY_GROUPS = {
    "import": "import(string) and operator>> of TMCG_Card, TMCG_CardSecret, VTMF_Card, VTMF_CardSecret, TMCG_Stack<>, TMCG_StackSecret<> (both card types), mpz operator>>",
    "key": "TMCG_PublicKey / TMCG_SecretKey: import, string constructor, operator>>, then check/verify/encrypt; verify(sig) / decrypt(ciphertext) of hostile text under a trusted key",
    "ctor": "stream constructor + CheckGroup/CheckKey + destructor of 15 group/state-carrying classes",
    "verify": "`in` side of every public verifier with a well-formed local statement: 19 non-interactive proofs (whole-text mutation) and 26 interactive protocols over vf::TwoParty with the relay as hostile prover",
    "pgp": "ArmorDecode, PacketDecode, SubpacketDecode, PublicKeyBlockParse, PrivateKeyBlockParse, SignatureParse, PublicKeyringParse, MessageParse (binary and armored) + checks/Decrypt/Verify on what was parsed",
    "aio": "aiounicast_select / aiounicast_nonblock Receive on arbitrary wire bytes, 6 (auth, enc, chunked) modes each",
}


def _wrapper(name, lines):
    """small executable launcher under .build/ (stages need a single executable path)"""
    d = os.path.join(build.BUILD_ROOT, "c12-drv")
    os.makedirs(d, exist_ok=True)
    body = "#!/bin/sh\n" + "\n".join(lines) + "\n"
    p = os.path.join(d, name + "-" + hashlib.sha256(body.encode()).hexdigest()[:12])
    if not os.path.exists(p):
        with open(p + ".tmp%d" % os.getpid(), "w") as f:
            f.write(body)
        os.chmod(p + ".tmp%d" % os.getpid(), 0o755)
        os.replace(p + ".tmp%d" % os.getpid(), p)
    return p


def _fz_bin(t, repo):
    return build.ensure_harness("fz_c12_" + t, "fuzz", repo, extra_src=(), no_interpose=True)


def _seed_dump(wbin, seed):
    """seed corpus of the fuzz targets = the valid artefacts the mutator starts from"""
    key = hashlib.sha256((wbin + str(seed)).encode()).hexdigest()[:16]
    d = os.path.join(build.BUILD_ROOT, "c12-seeds-%s" % key)
    if os.path.isdir(os.path.join(d, "pgp")) and os.path.isdir(os.path.join(d, "import")):
        os.utime(d, None)
        return d
    tmp = d + ".tmp%d" % os.getpid()
    shutil.rmtree(tmp, ignore_errors=True)
    env = dict(os.environ)
    env.update(runner.SAN_ENV)
    r = subprocess.run([wbin, "--tier", "quick", "--seed", str(seed), "--opt", "corpus=" + CORPUS, "--opt", "dump=" + tmp],
                       stdout=subprocess.PIPE, stderr=subprocess.STDOUT, env=env)
    if r.returncode != 0 or not os.path.isdir(os.path.join(tmp, "pgp")):
        raise build.BuildError("C12 seed dump failed (rc=%s): %s" % (r.returncode, r.stdout.decode(errors="replace")[-3000:]))
    shutil.rmtree(d, ignore_errors=True)
    os.rename(tmp, d)
    # keep the four most recent dumps
    ds = sorted((x for x in os.listdir(build.BUILD_ROOT) if x.startswith("c12-seeds-") and ".tmp" not in x),
                key=lambda x: os.path.getmtime(os.path.join(build.BUILD_ROOT, x)), reverse=True)
    for x in ds[4:]:
        shutil.rmtree(os.path.join(build.BUILD_ROOT, x), ignore_errors=True)
    return d


def prebuild(repo):
    st = stage("w_c12", repo)
    for t in TARGETS_ALL:
        _fz_bin(t, repo)
    _seed_dump(st["binary"], 1)
    stage("w_c12", repo, flavour="fast")


def spec(tier, seed, repo):
    quick = tier == "quick"
    margs = ["--opt", "corpus=" + CORPUS]
    # selftest knobs (mutant validation on a loaded machine): same cases, only one entry group executed / no fuzz stage
    if os.environ.get("C12_ONLY_GROUP"):
        margs += ["--opt", "group=" + os.environ["C12_ONLY_GROUP"]]
    if not quick:
        margs += ["--opt", "scale=100"]
    w = stage("w_c12", repo, args=margs, nshards=16, case_timeout=600 if quick else 1800, total_timeout=3600 if quick else 14400)
    targets = TARGETS_QUICK if quick else TARGETS_ALL
    seeds = _seed_dump(w["binary"], seed)
    fargs = ["--opt", "targets=" + ",".join(targets), "--opt", "seeds=" + seeds,
             "--opt", "maxlen=2048", "--opt", "timeout=120", "--opt", "maxcrash=12"]
    for t in targets:
        fargs += ["--opt", "bin_%s=%s" % (t, _fz_bin(t, repo)), "--opt", "runs_%s=%d" % (t, RUNS[tier][t])]
    drv = _wrapper("fuzzdrv", ['exec python3 "%s" "$@"' % DRV])
    fz = dict(binary=drv, flavour="fuzz", args=fargs, nshards=len(targets), case_timeout=900, total_timeout=3600 if quick else 6 * 3600,
              env={}, keep_recs=False, name="libfuzzer(" + ",".join(targets) + ")")
    stages = [w] if os.environ.get("C12_SKIP_FUZZ") else [w, fz]
    if not quick:
        fast = stage("w_c12", repo, flavour="fast")
        mc = _wrapper("memcheck", ['exec valgrind -q --error-exitcode=99 --exit-on-first-error=yes --leak-check=no --num-callers=12 "%s" "$@"' % fast["binary"]])
        stages.append(dict(binary=mc, flavour="fast", args=["--opt", "corpus=" + CORPUS, "--opt", "sample=2000", "--opt", "tierplan=quick"], nshards=16, case_timeout=1800,
                           total_timeout=4 * 3600, env={}, keep_recs=False, name="memcheck(w_c12 fast, sample 2000)"))
    floors = {"cases": 20000 if quick else 300000, "seed_accepted": 250, "fuzz_execs": int(0.9 * sum(RUNS[tier][t] for t in targets)),
              "group.import": 1000, "group.key": 1000, "group.ctor": 1000, "group.verify": 1500, "group.pgp": 8000, "group.aio": 600}
    return dict(
        stages=stages, level="fault_enumeration",
        rule="mutator: one case = one mutated input = (entry point, valid seed artefact generated by the library of the tree under test "
             "or committed gpg/test artefact, mutation class, catalogue index); catalogues (field deletion/duplication/swap, count and "
             "length fields <- boundary values, dimensions scaled with payload, non-digits, sign/parity/size of big numbers, truncation, "
             "byte flips, splices, delimiters, over-long fields; OpenPGP: all length encodings, wrong/huge lengths, partial lengths, tags, "
             "versions, algorithm octets, MPI bit counts, subpacket lengths/critical bit/types, packet order, nesting, body cut at every "
             "field boundary, armor defects) are applied completely when smaller than the per-class cap, otherwise a seeded sample; "
             "interactive verifiers: (prover line, line mutation) pairs through the relay; distinct = distinct (entry, mutated bytes); "
             "non-trivial = input differs from the seed (or is the identity check) and the outcome was classified. "
             "fuzz stage: evaluations = libFuzzer executions, distinct = inputs kept for new coverage",
        assumptions=["outcome oracle only: {refused, accepted-but-check-fails, accepted, std::exception} are fine; ASan report, memory-class "
                     "UBSan report, assert/abort, SIGFPE/SIGSEGV, escaping non-standard exception, hang (runner watchdog / libFuzzer -timeout), "
                     "> 3 GiB RSS or allocation are violations keyed by site",
                     "value-class UBSan checks (enum, bool, shift, signed-integer-overflow, float-cast-overflow) are observations",
                     "callers respect the documented preconditions: *Parse out-objects deleted only after true, encrypt()/sign() size "
                     "preconditions checked by the harness, keys used for verify/encrypt only after check() succeeded, Reduce() not called on "
                     "the relinked public part of a private key, verifiers called with well-formed local statements",
                     "512/256-bit groups, 704/768-bit Rabin keys, 1024-bit RSA/DSA/ElGamal OpenPGP keys; ASan red zones miss intra-object "
                     "and far out-of-bounds accesses"],
        floors=floors,
        extra_cov=dict(entry_groups=ENTRY_GROUPS, fuzz_targets=targets, fuzz_runs_per_target={t: RUNS[tier][t] for t in targets},
                       sanitizers="ASan+UBSan (gcc, mutator) ; ASan+UBSan+libFuzzer (clang-14, fuzz targets) ; memcheck (thorough)",
                       seed_corpus=seeds),
    )


def replay(rp, repo):
    """mutator cases: re-run the stored case; fuzz artifacts: re-run the stored input on the target"""
    w = rp.get("witness") or {}
    if w.get("target") and w.get("input_hex") is not None:
        t = w["target"]
        b = _fz_bin(t, repo)
        st = stage("w_c12", repo)
        seeds = _seed_dump(st["binary"], rp.get("seed", 1))
        with tempfile.NamedTemporaryFile(prefix="c12-replay-", delete=False) as f:
            if w.get("artifact") and os.path.exists(w["artifact"]):
                with open(w["artifact"], "rb") as a:
                    f.write(a.read())
            else:
                f.write(bytes.fromhex(w["input_hex"]))
            path = f.name
        sys.path.insert(0, os.path.join(VERIF, "ref"))
        import c12_fuzzdrv
        env = dict(os.environ)
        env.update(c12_fuzzdrv.FZ_ENV)
        env["C12_CTX_DIR"] = seeds
        r = subprocess.run([b, "-timeout=120", "-rss_limit_mb=4096", "-malloc_limit_mb=3072", path], stdout=subprocess.PIPE, stderr=subprocess.STDOUT, env=env)
        os.unlink(path)
        txt = r.stdout.decode(errors="replace")
        print(txt[-4000:])
        if r.returncode != 0:
            print("reproduced: key=C12/%s" % c12_fuzzdrv.fuzz_key(txt, r.returncode))
            print("VIOLATION property=C12 replay=(fuzz artifact of target %s)" % t)
            return 1
        return 0
    sp = spec(rp.get("tier", "quick"), rp.get("seed", 1), repo)
    st = sp["stages"][0]
    env = dict(os.environ)
    env.update(runner.SAN_ENV)
    cmd = [st["binary"]] + rp["args"] + ["--only", str(rp["case"]), "--out", "-"]
    print("replaying: %s" % " ".join(cmd))
    r = subprocess.run(cmd, env=env, stdout=subprocess.PIPE, stderr=subprocess.STDOUT)
    out = r.stdout.decode(errors="replace")
    bad = r.returncode != 0
    for line in out.splitlines():
        if line.startswith("{"):
            try:
                o = json.loads(line)
            except ValueError:
                continue
            if o.get("t") == "viol":
                bad = True
                print("reproduced: key=%s %s" % (o.get("key"), o.get("what")))
        else:
            print(line[:400])
    if bad:
        print("reproduced: key=C12/%s" % runner.crash_key(out, r.returncode) if r.returncode else "")
        print("VIOLATION property=C12 replay=case %s" % rp.get("case"))
    return 1 if bad else 0
