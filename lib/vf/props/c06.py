from . import stage

FLAVOURS = ["san"]


def prebuild(repo):
    stage("w_c06", repo)


def spec(tier, seed, repo):
    quick = tier == "quick"
    return dict(
        stages=[stage("w_c06", repo, nshards=16, case_timeout=240 if quick else 900,
                      total_timeout=1800 if quick else 5400)],
        level="fault_enumeration",
        rule="one case = one (class/construction path, field instance, corruption) of a valid base set, or one "
             "(class, whole-set/configured-size variant), or one library-generated set, or one (class, toy group) "
             "exhaustive CheckElement sweep over a in [-2,p+2], or one sampled CheckElement block; the case is "
             "non-trivial when library verdict and reference verdict were both obtained and compared "
             "(negative field values and PedersenCommitmentScheme::TestMembership are executed and recorded, "
             "not judged); distinct = distinct (class, field, corruption / variant / group) tuples",
        assumptions=["reference predicate: plain GMP from the property text (64 Miller-Rabin rounds); the canonical "
                     "generator is recomputed through the library's public hash tmcg_mpz_shash only",
                     "constructor std::exception counts as refusal; a crash is a keyed violation",
                     "512/160-bit base sets in the quick tier (generated sets also 1024/160); thorough adds a second "
                     "512/160 world, 1024/160 and 2048/256",
                     "the generating constructors PedersenCommitmentScheme(n,p,q,k,h) and "
                     "PedersenTrapdoorCommitmentScheme(p,q,k,g) are only fed valid parameters (they loop forever on "
                     "p <= 2 or k = 0 by construction; the corruption catalogue goes through the importing constructors)"],
        floors={"generated_sets": 60, "corrupt_evals": 3000 if quick else 12000, "variant_evals": 200,
                "ref_accept": 200, "ref_refuse": 2500, "toy_members": 1000, "toy_nonmembers": 20000,
                "sampled_members": 200, "sampled_nonmembers": 800, "gcd_clause_decisive": 20,
                "mod8_clause_decisive": 1, "size_clause_decisive": 60,
                "corruptions_yielding_valid_set_accepted": 20,
                "canonical_derivation_with_rejected_candidates": 1},
    )
