"""C09 - arithmetic primitives agree with their mathematical definition.

Two stages run the same driver (harness/w_c09.cc): the complete sweeps on the -O2 ("fast") library and
a thinned copy (every SAN_FRAC-th sweep case, all conversion/Bigint cases) on the ASan+UBSan library.
Every evaluation is compared in the driver with GMP called directly; the sampled records are
recomputed by ref/c09_ref.py (python integers) in post()."""
from . import stage
from .. import runner

import c09_ref

FLAVOURS = ["san", "fast"]
SAN_FRAC = 10


# the workload is allocation-bound (one malloc per mpz temporary): a smaller quarantine and shorter allocation
# stacks keep the ASan stage within the budget; detection of overflows / use-after-free is unaffected for
# the short-lived objects involved
SAN_ENV = {"ASAN_OPTIONS": runner.SAN_ENV["ASAN_OPTIONS"].replace("malloc_context_size=8", "malloc_context_size=4") +
           ":quarantine_size_mb=32"}


def prebuild(repo):
    stage("w_c09", repo, flavour="fast")
    stage("w_c09", repo, flavour="san")


def post(recs, merged):
    viols, stats = c09_ref.check_records(recs)
    merged["obs"]["python_offline_checker"] = {k: dict(records=v[0], judged=v[1]) for k, v in sorted(stats.items())}
    merged["obs"]["python_records_total"] = sum(v[0] for v in stats.values())
    merged["obs"]["python_records_judged"] = sum(v[1] for v in stats.values())
    merged["counts"]["py.records_judged"] = merged["obs"]["python_records_judged"]
    return viols


POW = ["tmcg_mpz_spowm", "tmcg_mpz_spowm_baseblind", "tmcg_mpz_spowm_calc", "tmcg_mpz_fpowm", "tmcg_mpz_fpowm_ui",
       "tmcg_mpz_fspowm"]
SQ = ["tmcg_mpz_sqrtmp", "tmcg_mpz_sqrtmp_r", "tmcg_mpz_sqrtmp_fast", "tmcg_mpz_sqrtmn", "tmcg_mpz_sqrtmn_r",
      "tmcg_mpz_sqrtmn_fast", "tmcg_mpz_sqrtmn_all", "tmcg_mpz_sqrtmn_r_all", "tmcg_mpz_sqrtmn_fast_all", "tmcg_mpz_qrmn_p"]
PR = ["sprime", "smprime", "sprime_naive", "smprime_naive", "sprime_noninc", "sprime2g", "sprime3mod4", "lprime",
      "lprime_prefix", "oprime", "oprime_noninc"]


def spec(tier, seed, repo):
    quick = tier == "quick"
    floors = {}
    for f in POW:
        floors["pw.%s.judged" % f] = 50000
    floors["pw.tmcg_mpz_fpowm_ui.judged"] = 20000
    for f in ("tmcg_mpz_fpowm", "tmcg_mpz_fspowm", "tmcg_mpz_spowm"):
        floors["pw.%s.documented_refusal_observed" % f] = 500
    for c in ("0", "+1", "-1", "+2", "-2", "q-1", "q", "q+1", "neg(q-1|q|q+1)", "2^t-1(+-)", "exactly-t-bits(+-)",
              "t+1-bits(+-)", "2^2048-1(+-)", "2^2048(+-)", "ULONG_MAX"):
        floors["pw.expclass." + c] = 500
    floors["pw.wrong_table_base_refused"] = 500
    floors["pw.tmcg_mpz_fpowm.judged_result_aliases_exponent"] = 10000
    floors["pw.tmcg_mpz_fspowm.judged_result_aliases_exponent"] = 10000
    floors["pw.zero_modulus_precompute_refused"] = 20
    for f in SQ:
        floors["sq.%s.judged" % f] = 100000
    for c in ("1", "3", "5", "7"):
        floors["sq.residues_p_%smod8" % c] = 10000
    floors["sq.branch_5mod8_a^((p-1)/4)=-1"] = 5000
    floors["sq.branch_1mod8_even_order(nonresidue_loop)"] = 20000
    floors["sq.branch_1mod8_odd_order(early_exit)"] = 1000
    floors["sq.1mod8_residue_2adic_order_16"] = 5
    floors["sq.1mod8_residue_2adic_order_25"] = 100
    floors["sq.blum_moduli"] = 276
    floors["ip.distinct_abscissae_interpolated"] = 5000000
    floors["ip.colliding_abscissae_refused"] = 20000
    floors["ip.size_4"] = 5000000
    floors["ip.size_8"] = 100
    for f in PR:
        floors["pr.tmcg_mpz_%s.draws_judged" % f] = 20
    floors["cv.roundtrips_judged"] = 3000
    floors["bi.sequences"] = 48
    floors["bi.secure_target_plain_operand(conversion path)"] = 200
    for op in ("add", "sub", "mul", "div", "mod", "mod_ui", "neg", "abs", "mul2exp", "powm", "powm_ui", "compare",
               "compare_ui", "get_ui", "size2", "probab_prime", "assign"):
        floors["bi.op." + op] = 100
    floors["py.records_judged"] = 60000
    ct = 300 if quick else 2400
    return dict(
        stages=[stage("w_c09", repo, flavour="fast", nshards=16, case_timeout=ct, label="w_c09 complete sweeps (-O2)"),
                stage("w_c09", repo, flavour="san", nshards=16, case_timeout=ct, args=["--opt", "frac=%d" % SAN_FRAC], env=SAN_ENV,
                      label="w_c09 1/%d of the sweep cases (ASan+UBSan)" % SAN_FRAC)],
        level="exploration",
        rule="one case = one modulus / group of primes / prime pair / abscissa prefix / generator call / operation "
             "sequence; evaluations = library results compared with the reference (GMP mpz_powm, Euler criterion + "
             "explicit squaring, machine-word Horner evaluation, own Miller-Rabin, GMP big-int model) or documented "
             "refusals checked; distinct = judged (function, input) tuples, distinct by construction (exponent lists "
             "are de-duplicated, residues/abscissae enumerated once); 'not judged' classes (base not coprime, exponent "
             "beyond the precomputed table, non-residues, negative conversions) are counted separately",
        assumptions=["exponentiation is judged for bases coprime to an odd modulus > 1 and exponents within the "
                     "precomputed table length; longer exponents (still <= TMCG_MAX_FPOWM_T) are recorded only",
                     "argument aliasing is judged in the shape the library itself uses (result = exponent variable on the "
                     "table functions); other aliasing shapes are counted only",
                     "square roots are judged for units that are squares (both Legendre symbols +1); zero, "
                     "non-residues and non-unit squares are counted only; p = 2 is outside the algorithms' domain",
                     "interpolation moduli are prime; primes of the references come from mpz_nextprime-style search "
                     "in the driver, primality of generator output by own Miller-Rabin (C++ and Python, 40 bases)",
                     "TMCG_Bigint: operands non-negative (negative results are compared by sign + magnitude and "
                     "normalised with abs/neg before reuse), divisors non-zero, random-number members not compared",
                     "conversion judged for 0 <= v < 2^8192 (well inside the TMCG_MAX_VALUE_CHARS buffer)"],
        floors=floors, post=post,
        extra_cov=dict(san_stage_fraction="1/%d" % SAN_FRAC))
