from . import stage

FLAVOURS = ["san", "fast"]


def prebuild(repo):
    stage("w_c09", repo, flavour="fast")
    stage("w_c09", repo, flavour="san")


def spec(tier, seed, repo):
    return dict(stages=[stage("w_c09", repo, flavour="fast", nshards=16, case_timeout=600)],
                level="exploration", rule="tbd", assumptions=[], floors={})
