from . import stage

FLAVOURS = ["san"]


def prebuild(repo):
    stage("w_c17", repo)


def spec(tier, seed, repo):
    quick = tier == "quick"
    return dict(
        stages=[stage("w_c17", repo, nshards=16, case_timeout=900 if quick else 2400,
                      total_timeout=3600 if quick else 14400)],
        level="exploration",
        rule="two-party: one case = one (part, role of the observed library side, strategy or mutated line, batch) "
             "containing several Flip_twoparty runs over line channels: library vs library (agreement, sum of the "
             "openings found on the wire by value, trace specification R(peer commitment) before W(own share)); "
             "harness peer in plain GMP that is honest-eager / sequential / withholding / adaptive / copycat / "
             "uses a negative representation / opens a pair that does not match its commitment (8 variants) / sends "
             "one of its three lines mutated (16 catalogue mutations), plus the same mutations applied in flight to a "
             "library peer.  n-party: one case = one SimNet scenario (n, t, faulty set using the library's deviation "
             "switch, silent party, slow honest party with delay D < time-out, link jitter) of "
             "JareckiLysyanskayaEDCF::Flip.  evaluations = oracle comparisons; distinct = distinct "
             "(strategy/mutation, role, share kind) resp. scenarios that reached the oracle",
        assumptions=["512/160-bit group (h = g^x generated per seed; plus a 1024/256-bit group for the two-party part "
                     "in the thorough tier)", "the harness does not use the trapdoor log_g h (Pedersen commitments "
                     "are binding only computationally)", "n-party: 2t < n, and 3t < n as soon as a party deviates "
                     "(reliable broadcast bound); virtual time, delays stay below the time-outs",
                     "copycat peer and negative same-residue openings are recorded, not judged (only the sum is)",
                     "collisions of honest random values (probability < 2^-140) are ignored"],
        floors={
            "ll_runs": 40, "ll_sum_ok": 40, "ll_ordering_ok": 80, "ll_side0_role0": 10, "ll_side0_role1": 10,
            "ll_faulty_peer_refused": 4,
            "hp_honest_role0": 100, "hp_honest_role1": 100, "hp_withheld_share_not_in_W": 16,
            "hp_withheld_W_integers": 16, "hp_agreement_ok": 40, "hp_sum_ok": 40,
            "hp_mismatch_refused": 50, "hp_adaptive": 8,
            "mitm_refused": 150, "hp_refused": 200,
            "mut_v+q": 10, "mut_v+p": 10, "mut_p-v": 10, "mut_swap": 6, "mut_delete": 10,
            "mutline_commitment": 50, "mutline_opening-a": 50, "mutline_opening-hat-a": 50,
            "np_runs": 35, "np_sum_ok": 30, "np_runs_with_faulty_party": 8, "np_runs_with_slow_party": 8,
            "np_faulty_in_qual_reconstructed": 1, "np_ordering_msgs_checked": 50,
            "np_ordering_share_seen_after_Tw": 8, "np_n2": 2, "np_n3": 4, "np_n4": 4, "np_n5": 4,
        },
    )
