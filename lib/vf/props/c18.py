from . import stage

FLAVOURS = ["san"]


def prebuild(repo):
    stage("w_c18", repo)


def spec(tier, seed, repo):
    quick = tier == "quick"
    return dict(
        stages=[stage("w_c18", repo, nshards=16, case_timeout=600 if quick else 2400,
                      total_timeout=3600 if quick else 14400)],
        level="exploration",
        rule="one case = one (part, protocol, N, repetition): part lib-vs-lib runs the library chooser against "
             "the library sender over line channels for every index (N<=16; sampled for 32, 64 in the quick "
             "tier) with rotating message-vector kinds (members, containing 1, repeated, all-equal, the "
             "integers 0..N-1 of tests/t-eotp.cc, arbitrary Z_p^*) and compares the output with M_sigma; part "
             "curious-chooser plays the chooser in plain GMP, checks its own index, tries three decryptions of "
             "every other ciphertext with its own secrets (skipped for all-equal vectors) and derives "
             "(g^s_j, g^r_j) from its secrets to check that blinding values are not reused; part "
             "malformed-first-move sends coinciding z-values and every catalogue mutation of every line and "
             "compares the sender's verdict with an independent well-formedness predicate.  evaluations = oracle "
             "comparisons; distinct = distinct (index, message kind) resp. (mutation class, position) per case",
        assumptions=["512/160-bit group per seed (plus one 1024/256-bit group in the thorough tier), parties built "
                     "through the parameter constructor", "a mutated first move that is still well-formed (other "
                     "member, the value 1, two lines swapped) must be accepted; only malformed ones must be refused",
                     "collisions of honest random values (probability < 2^-140) are ignored",
                     "message 0 (sent by the repository test) is only used in the lib-vs-lib part"],
        floors={
            "lib_xfer_1of2": 24, "lib_xfer_1ofN": 300 if quick else 2000, "lib_xfer_1ofN_optimized": 300 if quick else 2000,
            "lib_output_equal_M_sigma": 600 if quick else 4000,
            "curious_attempts": 2000, "blinding_pairs_derived": 800, "curious_own_index_ok": 150,
            "curious_xfer_1of2": 4, "curious_xfer_1ofN": 30, "curious_xfer_1ofN_optimized": 30,
            "coinciding_z_moves": 40, "malformed_refused": 500, "malformed_stillwellformed_accepted": 50,
            "class_catalogue:p-v": 5, "class_catalogue:v+p": 5, "class_catalogue:random-nonmember": 5,
        },
    )
