from . import stage

FLAVOURS = ["san"]


def prebuild(repo):
    stage("w_c20", repo)


def spec(tier, seed, repo):
    return dict(
        stages=[stage("w_c20", repo, nshards=16, case_timeout=300 if tier == "quick" else 1200)],
        level="fault_enumeration",
        rule="wip", assumptions=[], floors={})
