from . import stage
from .. import runner

FLAVOURS = ["san"]

# libgcrypt is not instrumented but its allocations go through ASan's allocator: elliptic-curve
# operations allocate so much that the default 256 MiB quarantine is cycled through constantly
# (page faults dominate, 20x slower).  A small quarantine keeps every check of the san flavour.
_ENV = {"ASAN_OPTIONS": runner.SAN_ENV["ASAN_OPTIONS"] + ":quarantine_size_mb=8:thread_local_quarantine_size_kb=64"}


def prebuild(repo):
    stage("w_c20", repo)


def post(recs, merged):
    import c20_gpg
    viols, obs = c20_gpg.judge([r for r in recs if r.get("k", "").startswith("gpg")])
    merged["obs"].update(obs)
    # regions x artefact kinds actually swept, from the counters
    cnt = merged.get("counts", {})
    table = {}
    for k, v in cnt.items():
        if k.startswith("flip/"):
            _, kind, region = k.split("/", 2)
            table.setdefault(kind, {})[region] = v
    merged["obs"]["tamper_regions_by_artefact_kind"] = table
    merged["obs"]["aead_modes_offered"] = "EAX, OCB (the library defines no GCM mode)"
    return viols


def spec(tier, seed, repo):
    quick = tier == "quick"
    floors = {
        "positive/docsig": 100 if quick else 500,
        "positive/keysig": 120 if quick else 900,
        "positive/keyblock": 8,
        "positive/seipd": 18, "positive/aead": 90, "positive/cfb-foreign": 6, "sed/refusal-checked": 2,
        "flip/docsig/sig.hashed": 3000, "flip/docsig/sig.mpi_val": 3000, "flip/docsig/data.octets": 3000, "flip/docsig/key.mpi_val": 3000,
        "flip/keysig/sig.hashed": 3000, "flip/keysig/key.mpi_val": 1500, "flip/keysig/uid.body": 500,
        "flip/keyblock/key.mpi_val": 200, "flip/keyblock/uidsig.hashed": 200, "flip/keyblock/bindsig.mpi_val": 100,
        "flip/seipd/seipd.data": 300, "flip/seipd/seipd.mdc": 300, "flip/seipd/seipd.prefix": 300,
        "flip/aead/aead.ct": 3000, "flip/aead/aead.tag": 2000, "flip/aead/aead.final_tag": 2000, "flip/aead/aead.ad": 800, "flip/aead/aead.iv": 2000,
        "struct/aead/final-tag-dropped": 90, "struct/aead/chunks-0-1-swapped": 30, "struct/seipd/retagged-as-SED": 18,
        "validity/docsig/expired": 20, "validity/docsig/weak-hash": 20, "validity/docsig/older-than-key": 40, "validity/docsig/future": 40,
        "art/docsig/RSA": 10, "art/docsig/DSA": 10, "art/docsig/ECDSA": 10, "art/docsig/EdDSA": 5,
    }
    return dict(
        stages=[stage("w_c20", repo, nshards=16, env=_ENV, case_timeout=600 if quick else 1800, total_timeout=7200)],
        level="fault_enumeration",
        rule="one case = one artefact made with the library (document signature: key algorithm x hash x binary/text x v4/v5; "
             "signature over keys/user IDs: 18 signature kinds x key algorithm x hash; key block; encrypted message: "
             "SEIPD x session-key transport, AEAD x cipher x mode x chunk-size octet x plaintext length at chunk boundaries, "
             "SED, foreign-cipher CFB) with its positive check and its tamper sweep: every octet (artefacts <= 150 octets; "
             "otherwise first/last/one random octet of every format region + seeded positions up to 150; thorough: every octet "
             "<= 4096) x 3 XOR masks (thorough: 10), structural tampers (chunk reorder/drop/duplicate, tag drop, truncation, "
             "retagging), validity scenarios through the interposed clock.  evaluations = oracle evaluations (one parse+verify or "
             "parse+decrypt each); distinct = distinct (artefact kind, part, region, offset) sub-cases that reached the oracle; "
             "non-trivial = the untouched artefact was accepted first",
        assumptions=[
            "keys come from gcry_pk_genkey (libgcrypt's own RNG): key and signature octets are not reproducible per seed, every witness carries them",
            "regions are computed by an independent packet walker (harness/c20_util.hh) from RFC 4880/6637/4880bis-06",
            "judged regions: signed data, hashed area, signature MPI values, key material, ciphertext, tags, associated data, ESK values; "
            "framing, unhashed area, left-16, MPI bit counts: judged only if different content is accepted",
            "gpg 2.2 judges v4 binary/text signatures (text forms whose canonical form RFC 4880 leaves open are recorded only), "
            "key block import and SEIPD decryption; v5/AEAD artefacts have no second judge",
            "RSA 1024/2048, DSA 1024/160 2048/256 (2048/224 thorough), ElGamal 1024 (1536 thorough), NIST P-256/384/521, brainpoolP256r1 (P512r1 thorough), Ed25519, ECDH P-256/P-384/Curve25519",
        ],
        floors=floors, post=post)
