from . import stage
from ..runner import Harness, SAN_ENV

# the proof verification frees ~50 KB strings thousands of times; ASan's default 256 MiB quarantine turns
# that into page-fault storms (measured: 110 s vs 7 s for one case), a small quarantine changes no verdict
ENV = {"ASAN_OPTIONS": SAN_ENV["ASAN_OPTIONS"] + ":quarantine_size_mb=16"}

FLAVOURS = ["san"]


def prebuild(repo):
    stage("w_c10", repo)


def _data(rec, ref):
    if "dgen" in rec:
        return ref.gen_msg(rec["dgen"][0], rec["dgen"][1])
    return bytes.fromhex(rec["dhex"])


def _patched(orig, rec):
    pl, sl = rec["pl"], rec["sl"]
    return orig[:pl] + rec["mid"] + (orig[len(orig) - sl:] if sl else "")


def post(recs, merged):
    """offline reference (ref/c10_ref.py): re-decides every recorded evaluation.
    * an accepted input the reference calls invalid, in a class the harness did not already judge
      as tamper -> violation (C10/ref/...)
    * a harness classification the reference contradicts (tamper that is valid, honest /
      equivalent that is invalid) -> harness failure (exit 2), never a verdict"""
    import c10_ref as ref
    keys = {}
    for r in recs:
        if r.get("r") == "key" and r["k"] not in keys:
            keys[r["k"]] = ref.Key(r)
            if str(ref.fnv(keys[r["k"]].pub)) != r["pubfnv"] or str(ref.fnv(keys[r["k"]].sec)) != r["secfnv"]:
                raise Harness("C10 reference: exported key text differs from the documented layout")
    out = []
    obs = merged["obs"]
    n = dict(v=0, d=0, c=0, rk=0)
    dis = []

    def viol(key, what, r, extra):
        w = dict(record={k: (v if not isinstance(v, str) or len(v) < 700 else v[:350] + "..." + v[-350:]) for k, v in r.items()}, **extra)
        out.append(dict(key=key, what=what, case=r.get("case"), witness=w, desc="offline reference", stage=0))

    for r in recs:
        t = r.get("r")
        if t not in n:
            continue
        K = keys.get(r["k"])
        if K is None:
            raise Harness("C10 reference: record without key material")
        n[t] += 1
        cls, acc = r.get("cls"), r["acc"]
        if t == "v":
            valid = ref.verify_ref(K.m, K.sig, _data(r, ref), r["txt"])
            if cls in ("honest", "equivalent") and not valid:
                dis.append(("verify: harness says %s, reference says invalid" % cls, r))
            elif cls == "tamper" and valid:
                dis.append(("verify: harness says tamper, reference says valid", r))
            if acc and not valid and cls != "tamper":
                viol("C10/ref/verify-accepted-invalid", "verify() accepted what the reference PRab verification refuses", r, {})
        elif t == "d":
            xs = ref.decrypt_ref(K, r["txt"])
            valid = len(xs) == 1
            if cls in ("honest", "equivalent") and (not valid or xs[0].hex() != r["x"]):
                dis.append(("decrypt: harness says %s, reference does not recover x (%d roots pass)" % (cls, len(xs)), r))
            elif cls == "tamper" and xs:
                dis.append(("decrypt: harness says tamper, reference finds valid redundancy", r))
            if acc and cls != "tamper" and (not valid or xs[0].hex() != r["out"]):
                viol("C10/ref/decrypt-differs-from-reference", "decrypt() result differs from the reference SAEP decryption", r,
                     dict(reference=[x.hex() for x in xs]))
        elif t == "c":
            sec = r["sec"]
            text = _patched(K.sec if sec else K.pub, r)
            if cls == "honest" and text != (K.sec if sec else K.pub):
                raise Harness("C10 reference: cannot reconstruct key text")
            imp, ok = ref.key_check_ref(text, sec)
            racc = imp and ok
            if cls == "honest" and not racc:
                dis.append(("check: reference refuses a generated key", r))
            elif cls == "tamper" and racc:
                dis.append(("check: harness says tamper, reference says valid key", r))
            elif cls == "equivalent" and not racc:
                obs["ref_refuses_equivalent_key_text"] = obs.get("ref_refuses_equivalent_key_text", 0) + 1
            if acc and not racc and cls != "tamper":
                viol("C10/ref/check-accepted-invalid", "check() accepted a key text the reference validation refuses", r, {})
            if cls == "unjudged":
                kk = "sec_pq_altered_%s_ref_%s" % ("accepted" if acc else "refused", "accepts" if racc else "refuses")
                obs[kk] = obs.get(kk, 0) + 1
        elif t == "rk":
            text = _patched(K.pub, r)
            imp, ok = ref.key_check_ref(text, False)
            racc = imp and ok
            if r["must_refuse"] and racc:
                dis.append(("re-signed key: harness says invalid, reference says valid", r))
            if not r["must_refuse"]:
                kk = "resigned_control_%s_ref_%s" % ("accepted" if acc else "refused", "accepts" if racc else "refuses")
                obs[kk] = obs.get(kk, 0) + 1
            if acc and not racc and not r["must_refuse"]:
                viol("C10/ref/check-accepted-invalid", "check() accepted a re-signed key the reference validation refuses", r, {})
    obs["reference_checked_records"] = dict(n)
    obs["reference_keys"] = len(keys)
    if dis:
        what, r = dis[0]
        msg = ("C10 reference disagrees with the harness classification in %d record(s); first: %s :: %s" %
               (len(dis), what, {k: (v if not isinstance(v, str) else v[:200]) for k, v in r.items()}))
        if merged["viols"] or out:
            # the library already failed an oracle: report that, keep the disagreement as an observation
            obs["reference_disagreements"] = dict(count=len(dis), first=msg[:600])
        else:
            raise Harness(msg)
    return out


def spec(tier, seed, repo):
    quick = tier == "quick"
    floors = {
        "sig_roundtrips": 80, "sig_root_verified": 300, "enc_roundtrips": 200, "enc_four_root_checks": 200,
        "enc_valid_root_at_library_position_0": 5, "enc_valid_root_at_library_position_1": 5,
        "enc_valid_root_at_library_position_2": 5, "enc_valid_root_at_library_position_3": 5,
        "enc_plaintext_all_zero": 4, "enc_plaintext_all_ff": 4,
        "check_generated": 10, "sig_tamper_refused": 600, "enc_tamper_refused": 400, "enc_forged_redundancy_refused": 150,
        "sig_forged_w": 10, "sig_forged_r": 10, "sig_forged_gamma": 10, "enc_tamper_other_residue": 80,
        "key_tamper_check_false": 1000, "pub_key_tamper_sets": 8, "sec_key_tamper_sets": 5,
        "nizk_replica_ok": 3, "resigned_fewer-rounds": 12, "resigned_proof-value": 10, "resigned_y": 6,
        "resign_control_ok": 6, "resigned_more_rounds_accepted": 3,
        "pub_field_nizk": 200, "sig_field_keyid": 50, "sig_field_keyid-length": 30, "enc_field_keyid-length": 20,
        "sig_field_data": 50, "sig_field_key": 20, "enc_field_key": 10, "keygen_424": 1, "keygen_672": 1, "keygen_1024n": 1,
    }
    if not quick:
        floors.update({"keygen_2048": 1, "keygen_2048n": 1, "keys_generated": 60, "nizk_value_positions_resigned": 1200,
                       "sig_tamper_refused": 3000, "key_tamper_check_false": 10000})
    return dict(
        stages=[stage("w_c10", repo, nshards=16, case_timeout=600 if quick else 2400, total_timeout=7200, env=ENV)],
        level="fault_enumeration",
        rule="one case = (key, operation block); keys: minimal size for PRab (424), 512, minimal size for SAEP (672), 768, 1024, "
             "with validity proof 424/672/1024 (thorough: 30 keys up to 2048, odd sizes); blocks: round trips (message classes, "
             "plaintext classes, all four roots), signature tamper, ciphertext tamper, public/secret key text tamper, re-signed keys "
             "(fewer proof rounds, altered proof values, y with Jacobi symbol -1). evaluations = library verdicts compared with the "
             "expectation; distinct = (field, mutation, key, input) tuples; a case is non-trivial if it produced at least one verdict",
        assumptions=["equivalent = only the root/value field changed and it still parses to a number with the same square "
                     "(signature), residue (ciphertext) or integer (key text); decided by GMP arithmetic in the harness and "
                     "again by the Python reference; equivalents are executed, counted, never judged",
                     "altered p/q of a secret key text are executed and counted, not judged (the property names modulus, "
                     "non-residue, proof and self-signature)",
                     "a key id of another length (ID0^, ID4^<suffix>, ...) is an alteration of the key-id field and judged as tamper",
                     "events of probability < 2^-60 (a random residue with valid redundancy) are ignored",
                     "encrypt()/sign() are only called when their documented size preconditions (asserts) hold for the modulus"],
        floors=floors, post=post,
    )
