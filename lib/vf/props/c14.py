from . import stage
import c14_check

FLAVOURS = ["san"]


def prebuild(repo):
    stage("w_c14", repo)


def spec(tier, seed, repo):
    q = tier == "quick"
    f = 1 if q else 6           # thorough multiplies the seeded exploration by 10
    floors = {
        "runs": 2500 * f, "handovers": 200000 * f, "runs_quiescent": 2400 * f,
        "runs_with_byzantine": 700 * f, "runs_all_honest": 700 * f,
        "runs_n2": 100, "runs_n3": 100, "runs_n4": 500, "runs_n5": 200, "runs_n7": 100,
        "runs_t0": 300, "runs_fifo_mode_0": 200, "runs_fifo_mode_1": 200, "runs_fifo_mode_2": 100,
        "runs_random": 500, "runs_pct": 300, "runs_starve": 300,
        "sys2_complete_schedules": 100, "sys4_single_deviation_runs": 300, "sys4_double_deviation_runs": 300,
        "directed_request_before_payload": 12, "directed_lretrieve_ldeliver_delivery": 1, "directed_cross_channel_runs": 4,
        "path_request_answer_delivery": 50, "path_ready_amplification": 500,
        "path_fifo_or_channel_buffer_delivery": 1000, "path_lretrieve_ldeliver_delivery": 1, "path_obsolete_cleanup": 1,
        "sent_retrieve": 100, "sent_request": 500, "sent_answer": 500,
        "delivered_via_Deliver": 10000, "delivered_via_DeliverFrom": 1000,
        "api_setID": 1000, "api_recoverID": 1000, "api_unsetID": 1000, "api_Broadcast": 5000,
        "oracle_validity_slots": 5000, "oracle_totality_slots": 5000, "byz_slots_delivered": 100,
        "injected": 5000, "recorded_runs": 100,
    }
    from .. import runner
    # a smaller ASan quarantine: the workload creates and destroys ~3000 short-lived networks per run and is
    # otherwise dominated by page faults on never-reused memory
    env = {"ASAN_OPTIONS": runner.SAN_ENV["ASAN_OPTIONS"] + ":quarantine_size_mb=32:thread_local_quarantine_size_kb=256"}
    return dict(
        stages=[stage("w_c14", repo, nshards=16, case_timeout=600 if q else 1800, total_timeout=3600 if q else 4 * 3600, env=env)],
        level="exploration",
        rule="one run = one schedule of a closed system of n parties (n in {2,3,4,5,7}; t = floor((n-1)/3) or 0; f <= t "
             "Byzantine parties whose messages are fabricated by the harness) executing one channel program (setID / "
             "recoverID / unsetID / Broadcast, 6 templates with nested, sequential and revisited channel identifiers, FIFO on, "
             "off or mixed per channel) under a step scheduler that hands over one in-flight 5-tuple per library call "
             "(Deliver or DeliverFrom with time-out 0, virtual time frozen): seeded random link choice, PCT priority "
             "schedules with <= 3 change points, schedules with starved links, all schedules of a single broadcast for n=2 "
             "(stateless search with sleep sets: one representative per class of schedules that differ only in the order "
             "of hand-overs to different parties), oldest-first order with <= 2 deviations (freeze a link / serve the c-th "
             "oldest) for n=4, and directed schedules (ready quorum before payload, then r-send, then racing answers; "
             "l-retrieve/l-deliver; parties on different channels).  Every run ends with an epilogue in which all honest "
             "parties revisit every channel and the network is drained to quiescence.  evaluations = runs; a run is "
             "non-trivial when it reached the end-of-run oracles; distinct = distinct schedule hashes (hash over the sequence "
             "of hand-overs, API calls and injections) per case.",
        assumptions=[
            "payloads are unique ids (sender, channel, slot, variant), so a delivered value identifies its slot",
            "'eventually' is replaced by quiescence of a closed system: no in-flight message and one more Deliver / "
            "DeliverFrom round at every honest party sends and delivers nothing, after every channel was revisited",
            "links are FIFO per ordered pair of parties (as pipes are); Byzantine parties may send anything at any time",
            "validity/totality are judged only for runs that became quiescent within the step bound; a run in which a "
            "Byzantine sender opens a huge sequence-number gap on a FIFO channel (unbounded l-retrieve traffic) is cut "
            "and judged for safety only (counter obs_lretrieve_flood_runs)",
            "FIFO order is judged on the sequence of delivery steps (Deliver returning true, directly or inside "
            "DeliverFrom); DeliverFrom must hand out buffered values of the current channel in that order",
            "DeliverFrom never calling Deliver while only foreign-channel values are buffered for the requested sender is "
            "recorded (obs_deliverfrom_blocked_by_foreign_buffer), not judged: the value is delivered by Deliver",
            "no protocol-model exhaustiveness; n <= 7",
        ],
        floors=floors, post=c14_check.post,
        extra_cov=dict(protocol_paths=["path_request_answer_delivery", "path_ready_amplification",
                                       "path_fifo_or_channel_buffer_delivery", "path_lretrieve_ldeliver_delivery",
                                       "path_obsolete_cleanup", "path_buffered_for_later", "path_ready_quorum_delivery"],
                       offline_checker="ref/c14_check.py re-evaluates all oracles on the recorded sample of complete event logs"),
    )
