from . import stage

FLAVOURS = ["san"]


def prebuild(repo):
    stage("w_c14", repo)


def spec(tier, seed, repo):
    return dict(
        stages=[stage("w_c14", repo, nshards=16, case_timeout=600)],
        level="exploration", rule="tbd", assumptions=[], floors={})
