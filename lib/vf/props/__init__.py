"""One module per property: spec(tier, seed, repo) -> dict(stages, level, rule, assumptions,
floors, post, extra_cov); prebuild(repo); FLAVOURS."""
from .. import build


def stage(name, repo, flavour="san", args=(), nshards=16, case_timeout=180, total_timeout=3600,
          extra_src=("engine.cc",), env=None, keep_recs=True, no_interpose=False, label=None,
          extra_flags=()):
    binary = build.ensure_harness(name, flavour, repo, extra_src=extra_src, no_interpose=no_interpose,
                                  extra_flags=extra_flags)
    return dict(binary=binary, flavour=flavour, args=list(args), nshards=nshards,
                case_timeout=case_timeout, total_timeout=total_timeout, env=env or {},
                keep_recs=keep_recs, name=label or name)
