from . import stage

FLAVOURS = ["san"]


def prebuild(repo):
    stage("w_c01", repo)


def spec(tier, seed, repo):
    return dict(
        stages=[stage("w_c01", repo, nshards=16, case_timeout=300 if tier == "quick" else 1500)],
        level="exploration",
        rule="one case = one world (encoding, group kind, k players, w type bits) in which cards of the "
             "listed types are created open/private, re-masked by a random chain of players (timing "
             "protection on/off) and opened by every player with all verified shares (and, dlog encoding, "
             "once with one share missing, and once with one player's contribution first damaged in transit - refused - and then re-sent intact); evaluations = card openings compared with the creation type; "
             "distinct = (world, type) pairs that reached the oracle",
        assumptions=["reference model is the type passed to TMCG_Create*Card", "512/160-bit groups and "
                     "512..640-bit Rabin keys (one 2048/256 world in the thorough tier)",
                     "negligible-probability clauses are not measured"],
        floors={"dlog_cards": 200, "dlog_damaged_then_resent": 50, "qr_cards": 20 if tier == "quick" else 200},
    )
