from . import stage
from ..runner import SAN_ENV

FLAVOURS = ["san"]

# big texts are allocated and freed thousands of times; a small ASan quarantine avoids page-fault storms
ENV = {"ASAN_OPTIONS": SAN_ENV["ASAN_OPTIONS"] + ":quarantine_size_mb=16"}


def prebuild(repo):
    stage("w_c11", repo)


def spec(tier, seed, repo):
    quick = tier == "quick"
    floors = {
        # integers through the stream operators
        "rt_int_mpz": 600, "rt_int_TMCG_Bigint": 600, "rt_int_gcry_mpi": 500, "int_exact": 1800,
        "int_longest_text_exact": 6, "int_longer_text_cases": 30, "int_long_text_refused": 30, "rt_int_sequence": 20,
        # cards: every player count and every number of type bits
        "rt_TMCG_Card": 700, "rt_TMCG_CardSecret": 700, "rt_VTMF_Card": 250, "rt_VTMF_CardSecret": 250,
        "mode_used_same": 80, "mode_used_shrink": 80, "mode_used_grow": 80, "mode_used_rebuild": 80, "mode_used_twice": 80,
        "card_longest_values": 2, "transport_stream_operator": 300, "transport_string_ctor": 8,
        # stacks
        "rt_TMCG_Stack<TMCG_Card>": 20, "rt_TMCG_StackSecret<TMCG_CardSecret>": 30, "rt_TMCG_Stack<VTMF_Card>": 12,
        "rt_TMCG_StackSecret<VTMF_CardSecret>": 20, "stack_size_1": 4, "stack_size_2": 4, "stack_size_51": 4, "stack_size_52": 4,
        "stack_size_511": 4, "stack_size_512": 4, "stack_stream_operator_cases": 10, "mode_used_stack_secret": 20,
        # keys
        "rt_TMCG_PublicKey": 20, "rt_TMCG_SecretKey": 20, "rt_TMCG_SecretKey/functional": 8, "key_424n": 1,
        # groups
        "rt_BarnettSmartVTMF_dlog": 8, "rt_BarnettSmartVTMF_dlog_GroupQR": 4, "rt_PedersenCommitmentScheme": 10, "rt_GrothSKC": 4,
        "rt_GrothVSSHE": 4, "rt_HooghSchoenmakersSkoricVillegasVRHE": 4, "rt_NaorPinkasEOTP": 2,
        "rt_PedersenTrapdoorCommitmentScheme": 4, "group_generators_256": 2, "group_generators_257": 2,
        # protocol states from SimNet runs
        "rt_PedersenVSS": 25, "rt_GennaroJareckiKrawczykRabinDKG": 25, "rt_CanettiGennaroJareckiKrawczykRabinRVSS": 25,
        "rt_CanettiGennaroJareckiKrawczykRabinZVSS": 25, "rt_CanettiGennaroJareckiKrawczykRabinDKG": 25,
        "rt_CanettiGennaroJareckiKrawczykRabinDSS": 25, "state_with_nonzero_shares": 36, "state_runs_all_parties_true": 36,
        "state_n_2": 6, "state_n_3": 12, "state_n_4": 12, "state_n_5": 18, "state_t_0": 24, "state_t_1": 18, "state_t_2": 6,
    }
    for k in range(1, 33):
        floors["dim_k_%d" % k] = 10
    for w in range(1, 11):
        floors["dim_w_%d" % w] = 32
    if not quick:
        floors.update({"state_n_6": 18, "state_n_7": 24, "state_t_3": 6, "key_1024n": 1, "key_2048": 1})
    return dict(
        stages=[stage("w_c11", repo, nshards=16, case_timeout=900 if quick else 2400, total_timeout=7200, env=ENV)],
        level="exploration",
        rule="one case = one block of objects of one exportable type: integers (boundary catalogue / text-length boundaries / "
             "random) through mpz, TMCG_Bigint and gcry_mpi stream operators; TMCG_Card and TMCG_CardSecret for one player "
             "count x all type bits x value classes x target (fresh, used same/shrink/grow/rebuild/twice); VTMF cards; stacks and "
             "stack secrets (kind x size x card dimensions); keys (size x proof x name); PublishGroup of 8 group-carrying "
             "classes; PublishState of 6 protocol classes after a real n-party SimNet run (n, t). evaluations = objects "
             "round-tripped (import ok, re-export identical, members equal, operator== where present); distinct = (type, "
             "dimensions, target, transport) tuples",
        assumptions=["TMCG_OpenStack and TMCG_PublicKeyRing have no importer; JareckiLysyanskaya RVSS/EDCF, the NTS classes and "
                     "GolleDCPG have no stream constructor/PublishState: left out",
                     "the longest integer text is TMCG_MAX_VALUE_CHARS-2 characters (what getline(buf, TMCG_MAX_VALUE_CHARS-1) "
                     "stores); exporting a gcry_mpi above that many hexadecimal digits is refused with an exception (counted)",
                     "TMCG_Stack::import appends to a used stack by design (observed, not judged); stack secrets, cards, card "
                     "secrets and keys are imported into used objects",
                     "a delimiter '|' inside a key's free-text name does not round-trip: observed (obs_key_name_with_delimiter_*), "
                     "not judged — the quantifier ranges over dimensions and integers",
                     "protocol states come from honest runs at 512/160 bit; a run in which a party returned false still yields "
                     "states that are round-tripped"],
        floors=floors,
    )
