from . import stage

FLAVOURS = ["san"]


def prebuild(repo):
    stage("w_c05", repo)


def spec(tier, seed, repo):
    return dict(
        stages=[stage("w_c05", repo, nshards=16, case_timeout=900 if tier == "quick" else 3600,
                      total_timeout=3 * 3600)],
        level="fault_enumeration",
        rule="tbd",
        assumptions=[],
        floors={},
    )
