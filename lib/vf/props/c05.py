import os

from . import stage

FLAVOURS = ["san", "fast"]

PAIRS = ["vtmf/key-nizk", "vtmf/key-interactive", "vtmf/key-publiccoin", "vtmf/cp-plain", "vtmf/cp-table",
         "vtmf/or-first", "vtmf/or-second", "vtmf/mask", "vtmf/remask", "vtmf/decrypt",
         "tmcg/maskcard-vtmf", "tmcg/cardsecret-vtmf", "tmcg/stackeq-vtmf", "tmcg/stackeq-vtmf-cyclic",
         "tmcg/groth", "tmcg/groth-noninteractive", "tmcg/hoogh", "tmcg/hoogh-noninteractive",
         "groth/vsshe-interactive", "groth/vsshe-publiccoin", "groth/vsshe-noninteractive",
         "groth/skc-interactive", "groth/skc-publiccoin", "groth/skc-noninteractive",
         "hoogh/vrhe-interactive", "hoogh/vrhe-publiccoin", "hoogh/vrhe-noninteractive",
         "hoogh/pubrotzk-interactive", "hoogh/pubrotzk-publiccoin", "hoogh/pubrotzk-noninteractive",
         "pedersen/commit", "pedersen/trapdoor-commit", "edcf/flip-twoparty",
         "tmcg/maskcard-qr", "tmcg/cardsecret-qr", "tmcg/stackeq-qr", "tmcg/stackeq-qr-cyclic",
         "rabin/sign", "rabin/key-nizk"]
NO_PUB = {"vtmf/key-nizk", "edcf/flip-twoparty", "rabin/sign", "rabin/key-nizk"}
QUICK_DLOG = ["+1", "other", "+q", "+p", "nonmember", "neg", "delete"]
FULL_DLOG = QUICK_DLOG + ["zero", "one", "p-1", "p", "q", "oversized", "truncate", "swap", "empty"]
QR_MUT = ["2v", "zero", "one", "truncate"]
ALT = ["group:other", "group:g^2", "key:extra-share", "com:other-seed", "key:other-rabin"]


def prebuild(repo):
    stage("w_c05", repo)
    stage("w_c05", repo, flavour="fast")


def spec(tier, seed, repo):
    quick = tier == "quick"
    floors = {}
    for p in PAIRS:
        floors["lines/" + p] = 1          # every pair: an accepted honest run whose prover lines were swept
        floors["runs/" + p] = 6
        if p not in NO_PUB:
            floors["pub_inputs/" + p] = 1
        if p != "rabin/key-nizk":
            floors["altcov/" + p + "/" + ("key:other-rabin" if (p.endswith("-qr") or "-qr-" in p or p.startswith("rabin/")) else "group:other")] = 1
    for m in (QUICK_DLOG if quick else FULL_DLOG):
        floors["mut/" + m] = 150 if quick else 1000
    for m in QR_MUT:
        floors["mut/" + m] = 60
    for a in ALT:
        floors["alt/" + a] = 4
    floors.update({
        "judged_line_runs": 4000 if quick else 40000,
        "judged_pub_runs": 700 if quick else 5000,
        "judged_alt_runs": 100,
        "replay_selfchecks": 40,
        "pubmut/elem/+1": 150, "pubmut/elem/other": 150, "pubmut/exp/+1": 15, "pubmut/qr/+1": 30, "pubmut/qr/2v": 30,
        "role/elem": 500, "role/scalar": 500, "role/resid": 200, "role/bit": 50,
        "role/crs.r": 20, "role/sts.count": 20,
    })
    if not quick:
        floors.update({"equiv_executed/same-square/resid/neg": 50, "equiv_executed/same-residue-mod-m/resid/+m": 50,
                       "equiv_executed/text-after-last-delimiter/struct:sts/append-after-last-delimiter": 5})
    # development aid (mutant triage): VERIF_C05_PROTO=<prefix>[,<prefix>..] restricts the sweep to some pairs;
    # the floors then fail (exit 2) unless a violation is found (exit 1) - never used by the registered commands
    args = []
    if os.environ.get("VERIF_C05_PROTO"):
        args = ["--opt", "proto=" + os.environ["VERIF_C05_PROTO"]]
    return dict(
        # quick: ASan+UBSan build; thorough (~10^5 verifier runs, verdict-only oracle): -O2 build without sanitizers
        stages=[stage("w_c05", repo, args=args, nshards=16, case_timeout=1200 if quick else 7200,
                      total_timeout=6 * 3600, flavour="san" if quick else "fast")],
        level="fault_enumeration",
        rule="one case = (parameter world, prover/verifier pair, size n, block of targets).  An honest run is recorded and "
             "must be ACCEPTED (otherwise the case is trivial and reported); then the verifier is re-run once per "
             "(target, mutation): non-interactive proofs on the edited text, interactive ones with a man in the middle "
             "editing prover line k in flight while the real prover keeps answering; public inputs are altered in the "
             "verifier's view only (recorded prover side replayed; cut-and-choose verifiers with coins scripted to all-0 "
             "and all-1, an input is judged in the run whose challenge selects it); group / common key / commitment "
             "generators through self-consistent alternative verifier objects.  evaluations = verifier runs; a case is "
             "non-trivial when at least one judged run was executed; distinct = (target, mutation) pairs of the case. "
             "A mutation whose text equals the original is skipped and counted (skipped_equal_text).",
        assumptions=[
            "catalogue (dlog): +1, other member / other residue, +q, +p, (-1)*v mod p, -v, delete [quick]; thorough adds 0, 1, "
            "p-1, p, q, v+2^4096, drop last character, swap with next line, empty line; v-q is not in the catalogue",
            "catalogue (QR): +1 (flip for parity bits), 2v mod m, 0, 1, delete, truncate, swap, empty; -v, m-v, v+m, m are "
            "executed and recorded (equiv_executed/equiv_accepted), not judged: same square / same residue",
            "public inputs: v+p (elements) and v+q (exponents) are executed and recorded, not judged: the same element / "
            "residue for a verifier computing mod p / mod q, and a public input is not a transmitted value; element inputs "
            "replaced by non-members ((-1)*v, -v, 0, p-1) make the statement ill-formed (validating received cards and keys "
            "is the caller's CheckElement step, property C06): executed and recorded, not judged; judged are +1, another "
            "member, 1, swap with the next input of the same kind, for exponents also 0 and -v, for QR values 2v, 0, 1",
            "verifier-side objects (group, common key, commitment generators, Rabin key) are altered only through "
            "self-consistent objects built by public constructors / SetupGenerators_publiccoin; common-key variants are "
            "not applied to the key-share proofs (they do not speak about h); group:g^2 exists only for the random-g class",
            "text after the last delimiter of a structured record (sts^..^x, crs|r|x) is an equivalent representation",
            "acceptance probabilities inherent to the protocols (2^-l_e challenges) are ignored; cut-and-choose public "
            "inputs are judged only in rounds whose challenge selects them (coins scripted)",
            "quick: n=3; sized protocols in one parameter world (rotating with seed) with the 7-mutation catalogue and "
            "additionally in the GroupQR world with the range class (+q, +p) only (|q| = |p|-1 there, so a missing range "
            "check is visible at every position; elsewhere v+q often overflows the |q|-bit fixed-base tables and is "
            "refused by accident); the other protocols in all four worlds; structured fields of the cut-and-choose stack "
            "secrets and of the Rabin key text are sampled (every third / ninth (field, mutation) pair, +q never "
            "sampled away); thorough: n in {2,3,8}, full catalogue, all worlds + sampled default sizes",
        ],
        floors=floors,
    )
