"""C19 -- OpenPGP encodings conform to the standard and round-trip.

The driver harness/w_c19.cc judges round trips (2) and armor refusals (4) itself and records every
emitted octet string; post() below recomputes each of them with the independent reference
ref/c19_rfc4880.py (1) and hands packet sequences / key blocks to gpg 2.2 as a second judge (3)."""
import hashlib
import json
import os
import re
import shutil
import subprocess
import tempfile
import threading
from concurrent.futures import ProcessPoolExecutor, ThreadPoolExecutor

from . import stage
from .. import build
import c19_rfc4880 as R

FLAVOURS = ["san"]
GPG = shutil.which("gpg") or "/usr/bin/gpg"


def prebuild(repo):
    stage("w_c19", repo)


# --------------------------------------------------------------------------- helpers
def hb(r, k):
    return bytes.fromhex(r.get(k) or "")


def mi(h):
    return int(h, 16) if h not in ("", "null", "err") else 0


def short(b, n=300):
    h = b.hex() if isinstance(b, (bytes, bytearray)) else str(b)
    return h if len(h) <= n else h[:n // 2] + "...(%d)..." % len(h) + h[-n // 2:]


class Out:
    """collects violations, observations and counters of the offline checker"""

    def __init__(self):
        self.viols = []
        self.cnt = {}
        self.obs = {}
        self.lock = threading.Lock()

    def v(self, key, what, rec, **w):
        w = dict(w)
        w["function"] = rec.get("f")
        self.viols.append(dict(key="C19/" + key, what=what, case=rec.get("case"), witness=w,
                               desc="offline reference check of record f=%s" % rec.get("f")))

    def c(self, name, n=1):
        with self.lock:
            self.cnt[name] = self.cnt.get(name, 0) + n

    def o(self, name, value):
        s = self.obs.setdefault(name, [])
        if value not in s and len(s) < 40:
            s.append(value)

    def expect(self, key, what, rec, got, want, **w):
        """byte-for-byte comparison of an emitted octet string with the reference"""
        self.c("ref_compared_" + rec["f"])
        if got != want:
            i = next((k for k in range(min(len(got), len(want))) if got[k] != want[k]), min(len(got), len(want)))
            self.v(key, what, rec, emitted=short(got, 600), reference=short(want, 600), first_difference_at=i,
                   emitted_len=len(got), reference_len=len(want), **w)
            return False
        return True


def txt(r, k="out_txt"):
    return r[k].encode("latin-1")


# --------------------------------------------------------------------------- per-function checkers
def ck_radix64(r, o):
    data = hb(r, "in")
    t = r["out_txt"]
    if not r["lb"]:
        o.expect("ref/radix64", "Radix64Encode (no line breaks) differs from RFC 4880 6.3", r, t.encode(), R.radix64_encode(data).encode(),
                 input=short(data))
        return
    problems, info = R.radix64_judge(t, data)
    problems = list({cls: (cls, detail) for cls, detail in reversed(problems)}.values())      # first instance per class
    for cls, detail in problems:
        o.v("ref/radix64-" + cls, "line-wrapped radix-64 output violates RFC 4880 6.3: %s %s" % (cls, detail), r,
            input_len=len(data), input=short(data), output=t[:400])
    if info["width"] is not None:
        o.o("radix64_full_line_width", info["width"])
        o.o("radix64_line_ending", info["eol"])
    if not problems:
        w = info["width"] or 64
        o.expect("ref/radix64", "radix-64 output differs from the reference rendering with the observed line width", r,
                 t.encode(), R.radix64_build(data, w, "\r\n" if info["eol"] != "LF" else "\n").encode(), input=short(data))


def ck_crc24(r, o):
    data = hb(r, "in")
    c = R.crc24_octets(data) if len(data) > 4096 else R.crc24(data).to_bytes(3, "big")
    o.expect("ref/crc24", "CRC24Compute differs from RFC 4880 6.1", r, hb(r, "out"), c, input=short(data))
    o.expect("ref/crc24-encode", "CRC24Encode is not '=' + radix-64 of the CRC", r, txt(r), b"=" + R.radix64_encode(c).encode(),
             input=short(data))


def ck_armor(r, o):
    data = hb(r, "in")
    t = r["out_txt"]
    title = R.ARMOR_TITLES[r["type"]]
    headers = []
    if r["version"]:
        headers.append(("Version", "LibTMCG " + r["verstr"]))
    if r["comment"]:
        headers.append(("Comment", r["comment"]))
    try:
        a = R.armor_parse(t)
    except R.Malformed as e:
        o.v("ref/armor-malformed", "emitted armor is not well formed (RFC 4880 6.2): %s" % e, r, armor=t[:600], input_len=len(data))
        return
    o.c("ref_compared_armor_parse")
    if a["title"] != title:
        o.v("ref/armor-header-line", "armor header line text does not match the armor type", r, title=a["title"], want=title)
    if a["problems"]:
        o.v("ref/armor-structure", "armor structure: " + "; ".join(a["problems"]), r, armor=t[:600])
    if a["headers"] != headers:
        o.v("ref/armor-headers", "armor headers differ from the requested ones", r, got=a["headers"], want=headers)
    if a["data"] != data:
        o.v("ref/armor-data", "armor body does not decode to the input octets", r, input=short(data), got=short(a["data"]))
    if a["crc_ok"] is not True:
        o.v("ref/armor-crc", "armor checksum is not the CRC-24 of the data", r, input=short(data), armor=t[-200:])
    problems, info = R.radix64_judge(a["body_text"], data)
    problems = list({cls: (cls, detail) for cls, detail in reversed(problems)}.values())
    for cls, detail in problems:
        o.v("ref/radix64-" + cls, "armor body violates RFC 4880 6.3: %s %s" % (cls, detail), r, input_len=len(data))
    if info["width"] is not None:
        o.o("radix64_full_line_width", info["width"])
    o.o("armor_line_ending", "CRLF" if a["eol"] == "\r\n" else "LF")
    if not problems:
        o.expect("ref/armor", "armor block differs from the reference rendering (observed line width / line ending)", r, t.encode("latin-1"),
                 R.armor_build(title, headers, data, info["width"] or 64, a["eol"]).encode("latin-1"), input_len=len(data))


def ck_len(r, o):
    o.expect("ref/body-length", "PacketLengthEncode differs from RFC 4880 4.2.2", r, hb(r, "out"), R.length_new(r["n"]), n=r["n"])


def ck_lens(r, o):
    for n, h in zip(r["ns"], r["outs"]):
        o.c("ref_compared_len")
        if bytes.fromhex(h) != R.length_new(n):
            o.v("ref/body-length", "PacketLengthEncode differs from RFC 4880 4.2.2", r, n=n, emitted=h, reference=R.length_new(n).hex())
            return


def ck_tag(r, o):
    o.expect("ref/packet-tag", "PacketTagEncode differs from the new-format tag octet (RFC 4880 4.2)", r, hb(r, "out"), R.tag_new(r["tag"]), tag=r["tag"])


def ck_mpi(r, o):
    v = mi(r["v"])
    out = hb(r, "out")
    if v.bit_length() > 65535:
        o.o("mpi_above_65535_bits_emits", "nothing" if not out else "%d octets" % len(out))
        return
    if o.expect("ref/mpi", "PacketMPIEncode differs from RFC 4880 3.2 (bit count, no leading zero octets)", r, out, R.mpi(v),
                value_bits=v.bit_length(), how=r.get("how"), value=short(r["v"])):
        o.c("ref_compared_mpi_checksum")
        if r["sum"] != R.checksum16(out):
            o.v("ref/mpi-checksum", "checksum accumulated by PacketMPIEncode is not the sum of the octets mod 65536", r, sum=r["sum"],
                want=R.checksum16(out))


def ck_mpidec(r, o):
    b = hb(r, "octets")
    bits = int.from_bytes(b[:2], "big")
    nb = (bits + 7) // 8
    o.c("ref_compared_mpidec")
    if r["used"] != 2 + nb or mi(r["v"]) != int.from_bytes(b[2:2 + nb], "big"):
        o.v("ref/mpi-decode", "PacketMPIDecode of a zero-padded MPI: consumed length / value differ from RFC 4880 3.2", r, octets=short(b),
            used=r["used"], want_used=2 + nb, value=r["v"])


def ck_scalar(r, o):
    n = {"scalar4": 4, "time": 4, "scalar8": 8}[r["f"]]
    o.expect("ref/scalar", "big-endian scalar encoding differs (RFC 4880 3.1/3.5)", r, hb(r, "out"), (r["v"] & ((1 << (8 * n)) - 1)).to_bytes(n, "big"), v=r["v"])


def ck_lit(r, o):
    d = hb(r, "in")
    o.expect("ref/literal", "literal data packet differs from RFC 4880 5.9", r, hb(r, "out"), R.packet_new(11, R.literal_body(0x62, b"", r["time"], d)), input_len=len(d))


def ck_simple_pkt(r, o):
    d = hb(r, "in")
    f = r["f"]
    want = {"sed": lambda: R.packet_new(9, d), "seipd": lambda: R.packet_new(18, b"\x01" + d), "uid": lambda: R.packet_new(13, d),
            "mdc": lambda: b"\xd3\x14" + d, "str": lambda: R.length_new(len(d)) + d,
            "aead": lambda: R.packet_new(20, R.aead_body(r["skalgo"], r["aeadalgo"], r["chunk"], hb(r, "iv"), d))}[f]()
    o.expect("ref/" + f, "%s packet differs from the reference framing" % f, r, hb(r, "out"), want, input_len=len(d))


def ck_subpkt(r, o):
    d = hb(r, "in")
    out = hb(r, "out")
    o.c("ref_compared_subpkt")
    try:
        sp = R.read_subpackets(out)
    except R.Malformed as e:
        o.v("ref/subpacket", "emitted signature subpacket is malformed: %s" % e, r, emitted=short(out))
        return
    if len(sp) != 1 or sp[0][0] != r["type"] or sp[0][1] != r["critical"] or sp[0][2] != d:
        o.v("ref/subpacket", "emitted signature subpacket does not carry (type, critical, body) (RFC 4880 5.2.3.1)", r, emitted=short(out),
            type=r["type"], critical=r["critical"], input_len=len(d))
    else:
        o.o("subpacket_length_forms", "%d octets for %s" % (sp[0][3], "<192" if len(d) + 1 < 192 else "<8384" if len(d) + 1 < 8384 else ">=8384"))


def ck_pktdec(r, o):
    b = hb(r, "octets")
    o.c("ref_compared_pktdec")
    try:
        ps = R.parse_packets(b)
    except R.Malformed as e:
        o.v("ref/harness-framing", "harness-built packet is malformed per the reference (harness bug): %s" % e, r, octets=short(b))
        return
    if len(ps) != 1:
        o.v("ref/harness-framing", "harness-built input is not exactly one packet", r, octets=short(b))
        return
    p = ps[0]
    body = p["body"]
    nl = body[1]
    data = body[2 + nl + 4:]
    ok = (r["ret"] == 11 and r["tag"] == p["tag"] == 11 and r["newformat"] == p["new"] and r["indet"] == bool(p.get("indeterminate"))
          and r["data_len"] == len(data) and r["data_sha256"] == hashlib.sha256(data).hexdigest())
    if not ok:
        o.v("ref/packet-decode-" + r["how"], "PacketDecode result differs from the reference parse of the same octets (%s)" % r["how"], r,
            octets=short(b), ret=r["ret"], data_len=r["data_len"], want_len=len(data))


def ck_bodyextract(r, o):
    b = hb(r, "octets")
    o.c("ref_compared_bodyextract")
    try:
        p = R.parse_packets(b)[0]
    except (R.Malformed, IndexError) as e:
        o.v("ref/emitted-packet-malformed", "emitted packet cannot be parsed by the reference: %s" % e, r, octets=short(b))
        return
    if r["tag"] != p["tag"] or hb(r, "body") != p["body"]:
        o.v("ref/body-extract", "PacketBodyExtract differs from the reference parse", r, octets=short(b), tag=r["tag"])


def _s2k_job(args):
    h, mode, p, s, c, kl = args
    return R.s2k(h, mode, bytes.fromhex(p), bytes.fromhex(s), c, kl).hex()


def ck_kdf(r, o):
    want = R.ecdh_kdf(r["hash"], r["skalgo"], hb(r, "zb"), R.CURVE_OID[r["curve"]], hb(r, "fpr"))
    if r["err"]:
        o.v("ref/ecdh-kdf", "KDFCompute returned an error for valid parameters", r, err=r["err"])
        return
    o.expect("ref/ecdh-kdf", "KDFCompute differs from RFC 6637 section 7", r, hb(r, "out"), want, curve=r["curve"], hash=r["hash"])


def ck_fpr(r, o):
    b = hb(r, "body")
    if r["v"] == 4:
        f, k = R.fingerprint_v4(b), R.keyid_v4(b)
    else:
        f, k = R.fingerprint_v5(b), R.keyid_v5(b)
    o.expect("ref/fingerprint-v%d" % r["v"], "fingerprint differs from RFC 4880 12.2 / 4880bis", r, hb(r, "fpr"), f, body_len=len(b))
    o.expect("ref/keyid-v%d" % r["v"], "key id differs from RFC 4880 12.2 / 4880bis", r, hb(r, "keyid"), k, body_len=len(b))
    if r["plain"] != f.hex().upper() or r["keyid_txt"] != k.hex().upper():
        o.v("ref/fingerprint-text", "hexadecimal rendering of fingerprint / key id differs", r, plain=r["plain"], keyid=r["keyid_txt"])


def _material(r):
    if r["algo"] in (18, 19, 22):
        return R.key_material(r["algo"], oid=hb(r, "oid"), point=mi(r["point"]), kdf=(r["kdf_h"], r["kdf_s"]))
    return R.key_material(r["algo"], mpis=[mi(x) for x in r["mpis"]])


def ck_pubkey(r, o):
    want = R.packet_new(r["tag"], R.pubkey_body(r["version"], r["created"], r["algo"], _material(r)))
    o.expect("ref/public-key-v%d" % r["version"], "public (sub)key packet differs from RFC 4880 5.5.2 / RFC 6637 9 / 4880bis", r, hb(r, "out"), want,
             tag=r["tag"], algo=r["algo"])


def _check_secret(r, o, out, pub, secrets, passphrase, what):
    """pub: expected public part of the body; secrets: list of ints"""
    try:
        ps = R.parse_packets(out)
        body = ps[0]["body"]
        assert len(ps) == 1
    except (R.Malformed, IndexError, AssertionError) as e:
        o.v("ref/secret-key-malformed", "emitted %s is malformed: %s" % (what, e), r, emitted=short(out))
        return
    if not passphrase:
        o.expect("ref/secret-key-plain", "%s (no passphrase) differs from RFC 4880 5.5.3" % what, r, out,
                 R.packet_new(ps[0]["tag"], pub + R.secret_tail_plain(secrets)))
        return
    tail = body[len(pub):]
    if body[:len(pub)] != pub or len(tail) < 4:
        o.v("ref/secret-key-protected", "public part of the protected %s differs from the reference" % what, r, emitted=short(out))
        return
    usage, skalgo, s2kt, hsh = tail[0], tail[1], tail[2], tail[3]
    o.o("secret_key_protection", "usage=%d cipher=%d s2k=%d hash=%d" % (usage, skalgo, s2kt, hsh))
    if usage != 254 or s2kt != 3 or skalgo not in (7, 8, 9) or hsh not in R.HASH_NAMES:
        o.c("not_judged_secret_protection_parameters")
        return
    salt, cnt, iv = tail[4:12], tail[12], tail[13:29]
    o.o("secret_key_s2k_count_octet", "0x%02X = %d octets" % (cnt, R.s2k_count(cnt)))
    want = R.packet_new(ps[0]["tag"], pub + R.secret_tail_protected(secrets, passphrase, skalgo, hsh, salt, cnt, iv))
    if ps[0]["hlen"] and o.expect("ref/secret-key-protected", "passphrase-protected %s differs from RFC 4880 5.5.3 (S2K 3.7.1.3 + CFB + SHA-1)" % what,
                                  r, out, want):
        o.c("secret_keys_decrypted_by_reference")


def ck_seckey(r, o):
    out = hb(r, "out")
    if r["algo"] not in (16, 17):
        o.o("secret_key_encoder_other_algorithms", "algo %d -> %s" % (r["algo"], "nothing emitted" if not out else "%d octets" % len(out)))
        return
    pub = R.pubkey_body(4, r["created"], r["algo"], R.key_material(r["algo"], mpis=[mi(x) for x in r["mpis"]]))
    _check_secret(r, o, out, pub, [mi(r["x"])], hb(r, "pass"), "secret key packet")


def ck_expkey(r, o):
    a = r["algo"]
    m = b"".join(R.mpi(mi(x)) for x in r["head"])
    m += R.mpi(len(r["qual"])) + b"".join(R.mpi(mi(x)) for x in r["qual"])
    capl = b"".join(R.length_new(len(bytes.fromhex(c))) + bytes.fromhex(c) for c in r["capl"])
    if a == 107:
        m += R.mpi(len(r["xqual"])) + b"".join(R.mpi(mi(x)) for x in r["xqual"]) + capl
    elif a == 108:
        m += capl
    else:
        m += b"".join(R.mpi(mi(x)) for x in r["v_i"])
    m += b"".join(R.mpi(mi(x)) for x in r["c_ik"])
    pub = R.pubkey_body(4, r["created"], a, m)
    _check_secret(r, o, hb(r, "out"), pub, [mi(r["x_i"]), mi(r["xprime_i"])], hb(r, "pass"), "threshold key packet (algorithm %d)" % a)


def ck_pkesk(r, o):
    f = b"".join(R.mpi(mi(x)) for x in r["mpis"])
    if r["algo"] == 18:
        w = hb(r, "wrapped")
        f += bytes([len(w)]) + w
    o.expect("ref/pkesk", "PKESK packet differs from RFC 4880 5.1 / RFC 6637 10", r, hb(r, "out"),
             R.packet_new(1, R.pkesk_body(hb(r, "keyid"), r["algo"], f)), algo=r["algo"])


def ck_sig(r, o):
    o.expect("ref/signature-packet", "signature packet differs from RFC 4880 5.2.3", r, hb(r, "out"),
             R.packet_new(2, R.sig_body(hb(r, "hashed"), b"", hb(r, "left"), [mi(x) for x in r["mpis"]])))


def ck_sigprep(r, o):
    a = r["args"]
    out = hb(r, "out")
    fn = a["fn"]
    o.c("ref_compared_sigprep")

    def bad(key, what, **w):
        o.v("ref/sigprep-" + key, "prepared signature (%s): %s" % (fn, what), r, emitted=short(out, 800), args=a, **w)
    if len(out) < 6:
        return bad("malformed", "shorter than the fixed header")
    ver, typ, pk, h = out[0], out[1], out[2], out[3]
    hl = int.from_bytes(out[4:6], "big")
    if 6 + hl != len(out):
        return bad("area-length", "two-octet hashed area length %d does not match the %d octets that follow" % (hl, len(out) - 6))
    try:
        sp = R.read_subpackets(out[6:])
    except R.Malformed as e:
        return bad("malformed", "hashed subpacket area is malformed: %s" % e)
    want_ver = 5 if "v5" in fn else 4
    want_type = {"revoker": 0x1F, "revoker-dsa": 0x1F, "timestamp-target": 0x40, "timestamp-embedded": 0x40, "attestation": 0x16}.get(fn, a["type"])
    want_pk = 17 if fn.endswith("-dsa") else a["pkalgo"]
    if (ver, typ, pk, h) != (want_ver, want_type, want_pk, a["hashalgo"]):
        bad("header", "version/type/algorithms differ from the arguments", got=[ver, typ, pk, h], want=[want_ver, want_type, want_pk, a["hashalgo"]])
    by = {}
    for t, c, b, form in sp:
        by.setdefault(t, []).append(b)
        o.o("sigprep_subpacket_types", t)
    if R.sig_hashed_part(ver, typ, pk, h, [(t, c, b) for t, c, b, f in sp]) != out:
        o.c("sigprep_nonminimal_subpacket_length_forms")

    def one(t):
        return by.get(t, [None])[0]
    if one(2) != R.time4(a["sigtime"]):
        bad("creation-time", "signature creation time subpacket missing or wrong (RFC 4880 5.2.3.4: MUST be present in the hashed area)")
    iss = bytes.fromhex(a["issuer"])
    if len(iss) == 8 and one(16) != iss:
        bad("issuer", "issuer subpacket differs from the given key id")
    if len(iss) == 20:
        if one(16) not in (None, iss[12:]):
            bad("issuer", "issuer subpacket is not the low 64 bits of the given v4 fingerprint")
        if one(33) not in (None, b"\x04" + iss):
            bad("issuer-fingerprint", "issuer fingerprint subpacket differs")
        if one(16) is None and one(33) is None:
            bad("issuer", "neither issuer nor issuer fingerprint subpacket carries the given v4 fingerprint")
    if len(iss) == 32:
        if one(33) != b"\x05" + iss:
            bad("issuer-fingerprint", "v5 issuer fingerprint subpacket missing or wrong")
        if 16 in by:
            bad("issuer-v5", "issuer key id subpacket present although the key is v5 (4880bis 5.2.3.5: MUST NOT)")
    exp = a["exptime"]
    if fn.startswith("self"):
        if exp and one(9) != R.time4(exp):
            bad("key-expiration", "key expiration time subpacket missing or wrong")
        if one(27) != bytes.fromhex(a["flags"]):
            bad("key-flags", "key flags subpacket differs")
    if fn.startswith("revoker"):
        if one(27) != bytes.fromhex(a["flags"]):
            bad("key-flags", "key flags subpacket differs")
        rv = bytes.fromhex(a["revoker"])
        if rv:
            rk = one(12)
            if rk is None or not rk[0] & 0x80 or rk[1] != a["pkalgo2"] or rk[2:] != rv:
                bad("revocation-key", "revocation key subpacket (class|algo|fingerprint) missing or wrong (RFC 4880 5.2.3.15)")
    if fn.startswith("detached") or fn.startswith("certification"):
        if exp and one(3) != R.time4(exp):
            bad("signature-expiration", "signature expiration time subpacket missing or wrong")
    pol = bytes.fromhex(a["policy"])
    if pol and not (fn.startswith("self") or fn.startswith("revo")):
        if one(26) != pol:
            bad("policy", "policy URI subpacket missing or wrong")
    if fn.startswith("revocation"):
        if one(29) != bytes([a["revcode"]]) + bytes.fromhex(a["reason"]):
            bad("revocation-reason", "reason for revocation subpacket (code || string) missing or wrong (RFC 4880 5.2.3.23)")
    if fn == "timestamp-target":
        if one(31) != bytes([a["target_pk"], a["target_h"]]) + bytes.fromhex(a["target_hash"]):
            bad("signature-target", "signature target subpacket missing or wrong (RFC 4880 5.2.3.25)")
    if fn == "timestamp-embedded":
        if one(32) != bytes.fromhex(a["embedded"]):
            bad("embedded-signature", "embedded signature subpacket missing or wrong")
    if fn == "attestation":
        if one(37) != bytes.fromhex(a["attested"]):
            bad("attested-certifications", "attested certifications subpacket missing or wrong")
    if fn.startswith("timestamp") or fn == "attestation":
        want = []
        for n, v in zip(a["notation_names"], a["notation_values"]):
            n, v = bytes.fromhex(n), bytes.fromhex(v)
            want.append(b"\x80\x00\x00\x00" + len(n).to_bytes(2, "big") + len(v).to_bytes(2, "big") + n + v)
        if by.get(20, []) != want:
            bad("notation", "notation data subpackets missing or wrong (RFC 4880 5.2.3.16)")


CHECKERS = {"radix64": ck_radix64, "crc24": ck_crc24, "armor": ck_armor, "len": ck_len, "lens": ck_lens, "tag": ck_tag, "mpi": ck_mpi,
            "mpidec": ck_mpidec, "scalar4": ck_scalar, "scalar8": ck_scalar, "time": ck_scalar, "lit": ck_lit, "sed": ck_simple_pkt,
            "seipd": ck_simple_pkt, "uid": ck_simple_pkt, "mdc": ck_simple_pkt, "str": ck_simple_pkt, "aead": ck_simple_pkt, "subpkt": ck_subpkt,
            "pktdec": ck_pktdec, "bodyextract": ck_bodyextract, "kdf": ck_kdf, "fpr": ck_fpr, "pubkey": ck_pubkey, "seckey": ck_seckey,
            "expkey": ck_expkey, "pkesk": ck_pkesk, "sig": ck_sig, "sigprep": ck_sigprep}


# --------------------------------------------------------------------------- gpg as second judge
BENIGN = [r"^gpg: reading options from", r"^gpg: enabled debug flags", r"^gpg: secmem usage", r"^gpg: keybox '.*' created$",
          r"^gpg: .*trustdb\.gpg: trustdb created$", r"^gpg: public key is [0-9A-F]+$", r"^gpg: encrypted with \S+ key, ID [0-9A-F]+$",
          r"^gpg: signature packet without keyid$", r"^gpg: subpacket of type \d+ has critical bit set$",
          r"^gpg: key [0-9A-F]+: public key \".*\" imported$", r"^gpg: Total number processed: \d+$", r"^gpg:\s+imported: \d+$",
          r"^gpg: using pgp trust model$", r"^gpg: no ultimately trusted keys found$", r"^gpg: WARNING: nothing exported$", r"^$"]
BENIGN = [re.compile(x) for x in BENIGN]


def gpg_available():
    try:
        p = subprocess.run([GPG, "--version"], stdout=subprocess.PIPE, stderr=subprocess.PIPE, timeout=20)
        m = re.search(rb"gpg \(GnuPG\) (\S+)", p.stdout)
        return m.group(1).decode() if p.returncode == 0 and m else None
    except (OSError, subprocess.SubprocessError):
        return None


def gpg_run(home, args, timeout=120):
    cmd = [GPG, "--batch", "--no-tty", "--no-options", "--homedir", home] + args
    p = subprocess.run(cmd, stdout=subprocess.PIPE, stderr=subprocess.PIPE, timeout=timeout, env=dict(os.environ, GNUPGHOME=home, LC_ALL="C"))
    return p.returncode, p.stdout.decode("latin-1"), p.stderr.decode("latin-1")


def parse_listing(text):
    pk = []
    cur = None
    for line in text.splitlines():
        m = re.match(r"# off=(\d+) ctb=([0-9a-f]+) tag=(\d+) hlen=(\d+) plen=(\d+)( partial)?( new-ctb)?", line)
        if m:
            cur = dict(off=int(m.group(1)), ctb=int(m.group(2), 16), tag=int(m.group(3)), hlen=int(m.group(4)), plen=int(m.group(5)),
                       partial=bool(m.group(6)), lines=[])
            pk.append(cur)
        elif cur is not None:
            cur["lines"].append(line)
    return pk


def _hexint(s):
    s = s.strip().split()[0] if s.strip() else "0"
    return int(s, 16)


def compare_listing(label, octets, listing, bad, o):
    """reference parse of the octets vs gpg's listing, packet by packet"""
    try:
        ref = R.parse_packets(octets)
    except R.Malformed as e:
        return bad("reference-parse", "reference cannot parse the emitted sequence: %s" % e)
    if len(ref) != len(listing):
        return bad("packet-count", "gpg lists %d packets, the reference parses %d" % (len(listing), len(ref)))
    for p, g in zip(ref, listing):
        o.c("gpg_packets_compared")
        o.c("gpg_tag_%d" % p["tag"])
        where = "packet at offset %d (tag %d)" % (p["off"], p["tag"])
        if (g["off"], g["tag"], g["hlen"], g["plen"]) != (p["off"], p["tag"], p["hlen"], p["plen"]):
            bad("header", "%s: gpg reports off/tag/hlen/plen %s, reference %s" % (where, (g["off"], g["tag"], g["hlen"], g["plen"]),
                                                                             (p["off"], p["tag"], p["hlen"], p["plen"])))
            continue
        txt_ = "\n".join(g["lines"])
        body = p["body"]
        try:
            if p["tag"] in (5, 6, 7, 14):
                if body[0] != 4:
                    continue
                d = R.parse_key_fields(body, p["tag"] in (5, 7))
                m = re.search(r"version (\d+), algo (\d+), created (\d+), expires (\d+)", txt_)
                if not m or (int(m.group(1)), int(m.group(2)), int(m.group(3))) != (d["version"], d["algo"], d["created"]):
                    bad("key-fields", "%s: version/algo/created differ: gpg %s" % (where, m.groups() if m else None))
                vals = [(_hexint(x)) for x in re.findall(r"pkey\[\d+\]: ([0-9A-F]+)", txt_)]
                if d["oid"] is not None:
                    want = [int.from_bytes(bytes([len(d["oid"])]) + d["oid"], "big"), d["mpis"][0]]
                    if d["kdf"]:
                        want.append(int.from_bytes(bytes([3, 1, d["kdf"][0], d["kdf"][1]]), "big"))
                else:
                    want = d["mpis"]
                if vals != want:
                    bad("key-mpis", "%s: public key MPIs differ between gpg and the reference parse" % where)
                o.c("gpg_mpis_compared", len(want))
                m = re.search(r"keyid: ([0-9A-F]{16})", txt_)
                kid = R.keyid_v4(body[:d["pub_end"]]).hex().upper()
                if not m or m.group(1) != kid:
                    bad("keyid", "%s: gpg key id %s, reference %s" % (where, m.group(1) if m else None, kid))
                o.c("gpg_keyids_compared")
                if p["tag"] in (5, 7):
                    if d["usage"] == 0:
                        m = re.search(r"skey\[\d+\]: ([0-9A-F]+)\n\tchecksum: ([0-9a-f]{4})", txt_)
                        if not m or _hexint(m.group(1)) != d["smpis"][0] or int(m.group(2), 16) != d["checksum"] or not d["checksum_ok"]:
                            bad("secret-plain", "%s: secret MPI / checksum differ" % where)
                    else:
                        m = re.search(r"iter\+salt S2K, algo: (\d+), (SHA1 protection|simple checksum), hash: (\d+), salt: ([0-9A-F]+)\n\tprotect count: (\d+) \((\d+)\)\n"
                                      r"\tprotect IV: ((?: [0-9a-f]{2})+)", txt_)
                        if not m:
                            bad("secret-protected", "%s: gpg does not show an iterated+salted S2K protection" % where)
                        else:
                            got = (int(m.group(1)), int(m.group(3)), m.group(4).lower(), int(m.group(5)), int(m.group(6)), m.group(7).replace(" ", ""))
                            want = (d["skalgo"], d["s2k_hash"], d["salt"].hex(), R.s2k_count(d["count"]), d["count"], d["iv"].hex())
                            if got != want:
                                bad("secret-protected", "%s: S2K parameters differ: gpg %s reference %s" % (where, got, want))
                            o.c("gpg_s2k_count_decodings_compared")
            elif p["tag"] == 13:
                if all(0x20 <= c < 0x7f and c not in b'"\\' for c in body):
                    if ':user ID packet: "%s"' % body.decode() not in txt_:
                        bad("user-id", "%s: user id text differs" % where)
            elif p["tag"] == 2:
                if body[0] != 4:
                    continue
                d = R.parse_sig_fields(body)
                m = re.search(r":signature packet: algo (\d+), keyid ([0-9A-F]{16})\n\tversion (\d+), created (\d+), md5len 0, sigclass 0x([0-9a-f]{2})\n"
                              r"\tdigest algo (\d+), begin of digest ([0-9a-f]{2}) ([0-9a-f]{2})", txt_)
                sub = {t: b for t, c, b, f in d["hashed"] + d["unhashed"]}
                created = int.from_bytes(sub.get(2, b"\0\0\0\0"), "big")
                kid = sub[16].hex().upper() if 16 in sub else (sub[33][-8:].hex().upper() if 33 in sub and sub[33][0] == 4 else "0" * 16)
                want = (d["pkalgo"], kid, d["version"], created, d["sigclass"], d["hashalgo"], d["left16"][0], d["left16"][1])
                got = None
                if m:
                    got = (int(m.group(1)), m.group(2), int(m.group(3)), int(m.group(4)), int(m.group(5), 16), int(m.group(6)), int(m.group(7), 16),
                           int(m.group(8), 16))
                if got != want:
                    bad("signature-fields", "%s: gpg %s, reference %s" % (where, got, want))
                gs = [(bool(c), h == "hashed ", int(t), int(ln)) for c, h, t, ln in re.findall(r"\t(critical )?(hashed )?subpkt (\d+) len (\d+)", txt_)]
                ws = [(c, True, t, len(b)) for t, c, b, f in d["hashed"]] + [(c, False, t, len(b)) for t, c, b, f in d["unhashed"]]
                if gs != ws:
                    bad("signature-subpackets", "%s: subpacket list (critical, hashed, type, length) differs: gpg %s reference %s" % (where, gs, ws))
                o.c("gpg_subpackets_compared", len(ws))
                vals = [_hexint(x) for x in re.findall(r"\n\tdata: ([0-9A-F]+)", "\n" + txt_)]
                if vals != d["mpis"]:
                    bad("signature-mpis", "%s: signature MPIs differ" % where)
                o.c("gpg_mpis_compared", len(vals))
            elif p["tag"] == 1:
                d = R.parse_pkesk_fields(body)
                m = re.search(r":pubkey enc packet: version (\d+), algo (\d+), keyid ([0-9A-F]{16})", txt_)
                if not m or (int(m.group(1)), int(m.group(2)), m.group(3)) != (3, d["algo"], d["keyid"].hex().upper()):
                    bad("pkesk-fields", "%s: version/algo/keyid differ" % where)
                vals = [_hexint(x) for x in re.findall(r"\n\tdata: ([0-9A-F]+)", "\n" + txt_)]
                want = list(d["mpis"])
                if d["algo"] == 18:
                    want.append(int.from_bytes(bytes([len(d["wrapped"])]) + d["wrapped"], "big"))
                if vals != want:
                    bad("pkesk-mpis", "%s: encrypted session key fields differ" % where)
                o.c("gpg_mpis_compared", len(vals))
            elif p["tag"] == 11:
                nl = body[1]
                m = re.search(r"mode (\S) \(([0-9a-f]{2})\), created (\d+), name=\"(.*)\",\n\traw data: (\d+) bytes", txt_)
                want = (body[0], int.from_bytes(body[2 + nl:6 + nl], "big"), body[2:2 + nl].decode("latin-1"), len(body) - 6 - nl)
                if not m or (int(m.group(2), 16), int(m.group(3)), m.group(4), int(m.group(5))) != want:
                    bad("literal-fields", "%s: literal packet fields differ: gpg %s reference %s" % (where, m.groups() if m else None, want))
            elif p["tag"] in (9, 18):
                m = re.search(r"\tlength: (\d+)", txt_)
                want = len(body)
                if not m or int(m.group(1)) != want or (p["tag"] == 18 and "mdc_method: 2" not in txt_):
                    bad("encrypted-fields", "%s: encrypted data length / mdc method differ" % where)
        except (R.Malformed, IndexError, KeyError, ValueError) as e:
            bad("reference-parse", "%s: reference cannot parse the packet body: %s: %s" % (where, type(e).__name__, e))


def run_gpg_cases(recs, o, workdir, nthreads=8):
    ver = gpg_available()
    if not ver:
        return None
    tls = threading.local()
    nhomes = [0]
    hlock = threading.Lock()

    def my_home():
        """one private GNUPGHOME per worker thread: parallel gpg processes must not share a keybox lock"""
        if not hasattr(tls, "home"):
            with hlock:
                nhomes[0] += 1
                tls.home = os.path.join(workdir, "home%d" % nhomes[0])
            os.makedirs(tls.home, mode=0o700)
            gpg_run(tls.home, ["--list-keys"])       # creates pubring/trustdb once
        return tls.home

    def one(args):
        i, r = args
        octets = bytes.fromhex(r["octets"])
        res = []

        def bad(key, what, **w):
            w.update(label=r["label"], kind=r["kind"], octets=short(octets, 3000), gpg_version=ver)
            res.append(dict(key="C19/gpg/" + key, what="gpg as second judge (%s %s): %s" % (r["kind"], r["label"], what), case=r.get("case"), witness=w,
                            desc="gpg %s of an emitted packet sequence" % r["kind"]))
        stats = dict(inv=0, diag={})

        def diagnostics(err):
            for line in err.splitlines():
                if not any(b.match(line) for b in BENIGN):
                    bad("diagnostic", "unexpected gpg diagnostic: %s" % re.sub(r"[0-9A-F]{16,}", "<id>", line)[:200], stderr=err[-1500:])
                    return
                m = re.match(r"^gpg: (subpacket of type \d+ has critical bit set|signature packet without keyid)", line)
                if m:
                    stats["diag"][m.group(1)] = stats["diag"].get(m.group(1), 0) + 1
        if r["kind"] == "list":
            f = os.path.join(workdir, "c%04d.pgp" % i)
            with open(f, "wb") as fh:
                fh.write(octets)
            rc, out, err = gpg_run(my_home(), ["--debug", "2", "--list-packets", "--list-only", f])
            stats["inv"] += 1
            if rc != 0:
                bad("list-packets-failed", "gpg --list-packets exits with %d" % rc, stderr=err[-1500:])
            diagnostics(err)
            compare_listing(r["label"], octets, parse_listing(out), lambda k, w: bad("list-" + k, w, listing=out[:3000]), o_local)
        else:
            f = os.path.join(workdir, "c%04d.asc" % i)
            with open(f, "wb") as fh:
                fh.write(octets)
            h2 = os.path.join(workdir, "h%04d" % i)
            os.makedirs(h2, mode=0o700)
            rc, out, err = gpg_run(h2, ["--import", "--import-options", "import-show", "--with-colons", "--fingerprint", "--fingerprint", f])
            stats["inv"] += 1
            x = r.get("x", {})
            fprs = re.findall(r"^fpr:{9}([0-9A-F]+):", out, re.M)
            if rc != 0 or not re.search(r"^gpg:\s+imported: 1$", err, re.M):
                bad("import-refused", "gpg --import does not import the emitted key block (rc %d)" % rc, stderr=err[-1500:], stdout=out[-1500:])
            else:
                diagnostics(err)
                want = [x.get("fpr", "").upper(), x.get("subfpr", "").upper()]
                if fprs != want:
                    bad("import-fingerprints", "fingerprints reported by gpg %s differ from the library's %s" % (fprs, want))
                if "uid:" not in out or x.get("uid", "") not in out:
                    bad("import-userid", "user id missing after import", stdout=out[-1500:])
            shutil.rmtree(h2, ignore_errors=True)
        return res, stats

    o_local = o
    items = [(i, r) for i, r in enumerate(recs)]
    allres = []
    inv = 0
    with ThreadPoolExecutor(nthreads) as ex:
        for res, stats in ex.map(one, items):
            allres.extend(res)
            inv += stats["inv"]
            for k, v in stats["diag"].items():
                o.c("gpg_benign_diagnostic: " + k, v)
    o.c("gpg_invocations", inv)
    return ver, allres


# --------------------------------------------------------------------------- offline checker
def post(recs, merged):
    o = Out()
    gpg_recs = []
    s2k_recs = []
    for r in recs:
        f = r.get("f")
        if f == "gpg":
            gpg_recs.append(r)
        elif f == "s2k":
            s2k_recs.append(r)
        elif f in CHECKERS:
            try:
                CHECKERS[f](r, o)
            except Exception as e:     # a reference crash is a harness failure, never a verdict
                from ..runner import Harness
                raise Harness("reference checker for record f=%s failed: %s: %s (case %s)" % (f, type(e).__name__, e, r.get("case")))
        else:
            o.c("records_without_checker_" + str(f))
    # S2K in parallel (up to 65 MB hashed per context)
    if s2k_recs:
        jobs = [(r["hash"], r["mode"], r["pass"], r["salt"], r["c"], r["sklen"]) for r in s2k_recs]
        order = sorted(range(len(jobs)), key=lambda i: -(R.s2k_count(jobs[i][4]) if jobs[i][1] == 3 else 0))
        with ProcessPoolExecutor(int(os.environ.get("VERIF_C19_PROCS", "8"))) as ex:
            res = list(ex.map(_s2k_job, [jobs[i] for i in order], chunksize=4))
        want = dict(zip(order, res))
        for i, r in enumerate(s2k_recs):
            mode = {0: "simple", 1: "salted", 3: "iterated"}[r["mode"]]
            o.c("ref_compared_s2k_" + mode)
            o.c("ref_s2k_hash_%d" % r["hash"])
            if r["mode"] == 3:
                o.o("s2k_count_octets_checked", r["c"])
            if r["out"] != want[i]:
                o.v("ref/s2k-" + mode, "S2KCompute (%s) differs from RFC 4880 3.7.1" % mode, r, hash=r["hash"], keylen=r["sklen"], count_octet=r["c"],
                    passphrase=r["pass"][:200], passphrase_len=len(r["pass"]) // 2, salt=r["salt"], emitted=r["out"], reference=want[i])
    # gpg
    gdir = tempfile.mkdtemp(prefix="C19-gpg-", dir=os.path.join(build.VERIF, "runs")) if os.path.isdir(os.path.join(build.VERIF, "runs")) else tempfile.mkdtemp(prefix="C19-gpg-")
    try:
        g = run_gpg_cases(gpg_recs, o, gdir) if gpg_recs else None
    finally:
        shutil.rmtree(gdir, ignore_errors=True)
    if g is None:
        merged["obs"]["gpg_second_judge"] = "NOT OBSERVED (gpg could not be started or no gpg case was produced)"
    else:
        merged["obs"]["gpg_second_judge"] = "gpg (GnuPG) %s" % g[0]
        o.viols.extend(g[1])
    for k, v in o.cnt.items():
        merged["counts"]["post_" + k] = merged["counts"].get("post_" + k, 0) + v
    for k, v in o.obs.items():
        merged["obs"][k] = sorted(v, key=str)
    merged["recs"] = []       # free memory (the runner does not need them any more)
    return o.viols


def spec(tier, seed, repo):
    quick = tier == "quick"
    floors = {
        "byte_lengths": 250, "byte_lengths_big": 5, "enc_ArmorEncode": 900, "enc_Radix64Encode": 500, "refusal_wrong-crc": 300,
        "refusal_data-vs-crc": 300, "refusal_nested-begin": 300, "refusal_no-blank-line": 300, "refusal_no-end-line": 300,
        "dec_partial_body": 20, "dec_oldfmt_len1": 100, "dec_oldfmt_len2": 200, "dec_oldfmt_len4": 200, "mpi_bit_lengths": 100,
        "mpi_leading_zero_inputs": 100, "s2k_iterated": 600 if quick else 5000, "s2k_salted": 200, "enc_KDFCompute": 300,
        "enc_PacketPubEncode": 20, "enc_PacketPubEncodeV5": 20, "enc_PacketPubEncode_ec": 10, "enc_PacketSubEncode": 20,
        "enc_PacketSecEncode": 10, "enc_PacketSsbEncode": 10, "seckey_protected": 10, "enc_PacketSecEncodeExperimental107": 2,
        "enc_PacketSecEncodeExperimental108": 2, "enc_PacketSsbEncodeExperimental109": 2, "sig_packets": 150,
        "enc_PacketPkeskEncode_rsa": 20, "enc_PacketPkeskEncode_elg": 20, "enc_PacketPkeskEncode_ecdh": 20,
        "enc_FingerprintCompute": 50, "enc_FingerprintComputeV5": 50, "gpg_cases_list": 80, "gpg_cases_import": 10,
        "post_ref_compared_armor": 900, "post_ref_compared_mpi": 400, "post_ref_compared_s2k_iterated": 600 if quick else 5000,
        "post_ref_compared_pubkey": 100, "post_ref_compared_sigprep": 150, "post_ref_compared_pktdec": 500,
    }
    if gpg_available():
        floors.update({"post_gpg_invocations": 90, "post_gpg_packets_compared": 400})
    return dict(
        stages=[stage("w_c19", repo, nshards=16, case_timeout=600, total_timeout=5400)],
        level="exploration",
        rule="one case = one block of inputs of one group: byte strings (6 lengths: radix-64, CRC-24, armor of all 4 types + refusal catalogue, "
             "literal/SED/SEIPD/UID/AEAD/subpacket/string framing, old-format/partial/non-minimal decode direction), integers (12 bit lengths: "
             "2^k-1, 2^k, 2^k+1, random, leading-zero input, padded decode), all body lengths, S2K (hash x 6..8 count octets x key lengths x "
             "modes), ECDH KDF per curve, one key configuration (every public/secret encoder form, fingerprints, key block import), threshold "
             "key packets, one signature-prepare function x 6..10 argument sets, PKESK sets; evaluations = oracle comparisons made in the driver "
             "(round trip, refusal); distinct = distinct (oracle, function, variant) classes that reached a comparison in the case; the "
             "reference and gpg comparisons are counted by the post_* counters",
        assumptions=["reference = ref/c19_rfc4880.py written from RFC 4880 / RFC 6637 / draft 4880bis text, validated against gpg 2.2.40 output "
                     "(fingerprints, S2K + AES-CFB protected key, armor) and FIPS-197 / CRC-24 check values",
                     "radix-64 line width (64) and CRLF line endings are recorded, not judged; RFC bound <= 76 is judged",
                     "v5 / AEAD / algorithm 107-109 packets are judged by the reference only",
                     "keys come from libgcrypt's own generator (not the interposed PRNG): key material differs between runs",
                     "zero-length SED/SEIPD/AEAD bodies and zero-length PacketString are not round-trip judged (not valid / documented refusal)",
                     "decoder buffer limits (policy URI, reason < 2048 octets) are respected by the workload"],
        floors=floors, post=post)


def replay(rp, repo):
    """re-run one case, then the offline checker on its records"""
    sp = spec(rp.get("tier", "quick"), rp.get("seed", 1), repo)
    binary = sp["stages"][0]["binary"]
    from .. import runner
    env = dict(os.environ)
    env.update(runner.SAN_ENV)
    with tempfile.TemporaryDirectory(prefix="C19-replay-", dir=os.path.join(build.VERIF, "runs")) as td:
        outp = os.path.join(td, "out.jsonl")
        cmd = [binary] + (rp.get("args") or ["--tier", rp.get("tier", "quick"), "--seed", str(rp.get("seed", 1))]) + ["--only", str(rp["case"]), "--out", outp]
        print("replaying: %s" % " ".join(cmd))
        p = subprocess.run(cmd, env=env, stdout=subprocess.PIPE, stderr=subprocess.STDOUT, cwd=td)
        recs, viols = [], []
        try:
            with open(outp) as f:
                for line in f:
                    try:
                        ob = json.loads(line)
                    except ValueError:
                        continue
                    if ob.get("t") == "rec":
                        recs.append(ob)
                    elif ob.get("t") == "viol":
                        viols.append(ob)
        except OSError:
            pass
        merged = dict(obs={}, counts={}, recs=recs)
        viols += post(recs, merged)
    bad = p.returncode != 0
    if bad:
        print(p.stdout.decode(errors="replace")[-3000:])
    for v in viols:
        bad = True
        print("reproduced: key=%s %s" % (v.get("key"), v.get("what")))
        print(json.dumps(v.get("witness"))[:2000])
    if bad:
        print("VIOLATION property=C19 replay (case %s)" % rp.get("case"))
    return 1 if bad else 0
