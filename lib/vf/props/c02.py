from . import stage

FLAVOURS = ["san"]


def prebuild(repo):
    stage("w_c02", repo)


def spec(tier, seed, repo):
    q = tier == "quick"
    return dict(
        stages=[stage("w_c02", repo, nshards=16, case_timeout=300 if q else 1800)],
        level="exploration",
        rule="one case = one (family, encoding, players k, stack size n[, chain length]) block: "
             "given-pi = all n! permutations x {distinct, repeated} type patterns through "
             "TMCG_CreateStackSecret(ss, pi, ..) + TMCG_MixStack, every output card opened with all shares; "
             "generated = secrets from TMCG_CreateStackSecret(cyclic=false/true): bijection check, rotation by the "
             "returned offset, mix + open; chain = 2..4 consecutive shuffles by different players, opened only at "
             "the end, oracle = composition of the recorded index vectors; import-* = the library's own export text "
             "with only the index fields rewritten (all n^n vectors / random non-bijections and out-of-range values), "
             "accepted iff sorted(index vector) == 0..n-1 (also when the importing object already holds a secret).  evaluations = compared card openings + judged secrets + "
             "judged imports; distinct = distinct (pi, type pattern) / index vectors / mutation classes per case",
        assumptions=["reference model for card types is the type passed to TMCG_Create{Open,Private}Card",
                     "512/160-bit groups (random g, canonical g, GroupQR), 512/576-bit Rabin keys without NIZK proof",
                     "QR-encoding rows are opened by every key owner with TMCG_SelfCardSecret (the interactive "
                     "transfer of a row is C01's subject)",
                     "rotations are exercised for n >= 2 (n = 1, cyclic=true makes tmcg_mpz_srandom_mod(1) throw "
                     "std::invalid_argument; outside the stated quantifier)",
                     "re-masking with the card secret of another position is invisible here (C03/C04)"],
        floors={"dlog_shuffles": 500 if q else 5000, "qr_shuffles": 200 if q else 2000,
                "generated_big_sizes": 3, "rotations_confirmed_by_opening": 80 if q else 800,
                "rotations_nonzero_offset": 60, "chains": 40 if q else 300,
                "imports_enumerated": 2 * 288 if q else 2 * (288 + 3125 + 46656),
                "imports_class_duplicate": 30, "imports_class_out_of_range_n": 30,
                "imports_class_out_of_range_n+1": 30, "imports_class_out_of_range_2^64-1": 30,
                "imports_class_missing_last": 30, "imports_big_n": 30,
                "given_perms_n5": 120 * 6, "imports_into_used_object": 12},
    )
