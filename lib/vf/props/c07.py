from . import stage
from ..runner import Harness

FLAVOURS = ["fast"]


def prebuild(repo):
    stage("w_c07", repo, flavour="fast")


def _post(recs, merged):
    """collect the per-table statistics into the evidence and cross-check every p-value of the
    harness (series / continued fraction) against the independent finite-sum reference"""
    import c07_chi2
    tables = []
    worst = 0.0
    for r in recs:
        if "table" not in r:
            continue
        if not r.get("skipped"):
            ref = c07_chi2.log10_chi2_sf(r["chi2"], r["df"])
            tol = 1e-6 + 1e-6 * abs(ref)
            if abs(ref - r["log10p"]) > tol:
                raise Harness("p-value mismatch harness/reference for %s/%s: chi2=%r df=%r harness log10p=%r reference=%r"
                              % (r["test"], r["table"], r["chi2"], r["df"], r["log10p"], ref))
            worst = min(worst, r["log10p"])
        tables.append(dict(test=r["test"] + ("/real-rng" if r.get("real") else ""), table=r["table"], cells=r["cells"],
                           draws=r["N"], df=r["df"], chi2=round(r["chi2"], 3), log10_p=round(r["log10p"], 4),
                           obs_min=r["obs_min"], obs_max=r["obs_max"], expected_min=round(r["exp_min"], 1),
                           skipped_low_expectation=bool(r.get("skipped")),
                           **({"retest_log10_p": round(r["retest_log10p"], 4)} if "retest_log10p" in r else {})))
    tables.sort(key=lambda t: (t["test"], t["table"]))
    merged["obs"]["tables"] = tables
    merged["obs"]["smallest_log10_p"] = round(worst, 4)
    merged["obs"]["p_values_cross_checked_against_reference"] = sum(1 for t in tables if not t["skipped_low_expectation"])
    merged["obs"]["thresholds"] = dict(retest_below_log10_p=-6, reject_below_log10_p=-9, rule="both samples must reject")
    return []


def spec(tier, seed, repo):
    q = tier == "quick"
    return dict(
        stages=[stage("w_c07", repo, flavour="fast", nshards=16, case_timeout=300 if q else 1800),
                stage("w_c07", repo, flavour="fast", args=["--opt", "rng=real"], nshards=16, case_timeout=300 if q else 1200,
                      label="w_c07-real-rng")],
        level="exploration",
        rule="one case = one sampler (function, modulus / stack size, quality level) run for N draws feeding one or "
             "more tables with exactly one observation per draw; every draw passes the hard range oracle; every "
             "table with >= 50 expected draws per cell is judged by Pearson chi-square (p < 1e-9 rejects; p < 1e-6 "
             "triggers an independent second sample and both must reject); evaluations = judged tables",
        assumptions=["interposed xoshiro256** streams (independent per case and lane) for the big samples; the real "
                     "libgcrypt RNG (all three levels) for 2e4 draws per test in the second stage",
                     "position x value table of n x n cells: statistic scaled by (n-1)/n, (n-1)^2 degrees of freedom "
                     "(covariance of a uniform permutation matrix)",
                     "16-bucket tables for moduli above 65537 (bucket sizes differ by at most one value)",
                     "biases below ~1/sqrt(N) per cell are invisible (2^-64 modulo bias of small moduli is covered "
                     "only through the moduli just above 2^63)",
                     "false-alarm probability per table about 1e-18 (two independent rejections at 1e-9)"],
        floors={"perm_draws": 1000000 if q else 20000000, "rotation_draws": 300000, "bounded_draws": 10000000,
                "residue_draws": 10000000, "bits_draws": 2000000, "tables_judged": 250,
                "tables_permutation-histogram": 7, "tables_permutation-marginals": 30, "tables_rotation-offset": 9,
                "real_draws_s": 100000, "real_draws_ss": 8000, "real_draws_w": 100000, "real_tests": 40},
        post=_post,
    )
