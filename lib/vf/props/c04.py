from . import stage

FLAVOURS = ["san", "fast"]

# every (protocol, kind of false statement) of part (a) must have been run and judged
CC = ["tmcg/stackeq-vtmf", "tmcg/stackeq-vtmf-cyclic"]
TMCG_ARG = ["tmcg/groth", "tmcg/groth-noninteractive", "tmcg/hoogh", "tmcg/hoogh-noninteractive"]
DIRECT = ["groth/vsshe-interactive", "groth/vsshe-publiccoin", "groth/vsshe-noninteractive",
          "hoogh/vrhe-interactive", "hoogh/vrhe-publiccoin", "hoogh/vrhe-noninteractive"]
PUBROT = ["hoogh/pubrotzk-interactive", "hoogh/pubrotzk-publiccoin", "hoogh/pubrotzk-noninteractive"]


def _fs_floor_names():
    names = {}

    def need(proto, kind, strategies, minimum=2):
        for s in strategies:
            names["fs/%s/%s/%s" % (proto, kind, s)] = minimum
    for p in CC + TMCG_ARG + DIRECT:
        for kind in ("subst", "dup", "retype"):
            need(p, kind, ("both", "vonly"))
        if p.startswith("tmcg/"):
            need(p, "drop", ("vonly",))
            need(p, "nonmember", ("both", "vonly"))
        if "cyclic" in p or "hoogh" in p:
            need(p, "noncyclic", ("both",), 3)
    for p in PUBROT:
        need(p, "noncyclic", ("both",), 6)
        need(p, "subst", ("both", "vonly"))
    for p in ("tmcg/stackeq-qr", "tmcg/stackeq-qr-cyclic"):
        for kind in ("subst", "dup", "retype", "jacobi"):
            need(p, kind, ("both", "vonly"))
        need(p, "drop", ("vonly",))
        need(p, "maskflip", ("fitting-witness",))
    need("tmcg/stackeq-qr-cyclic", "noncyclic", ("both",), 3)
    need("vtmf/key-nizk", "keyshift", ("both", "vonly"))
    need("vtmf/key-interactive", "keyshift", ("both",))
    need("vtmf/key-publiccoin", "keyshift", ("both",))
    for p in ("vtmf/cp-plain", "vtmf/cp-table"):
        need(p, "unequal-dlog", ("both", "vonly"))
    for p in ("vtmf/mask", "vtmf/remask", "tmcg/maskcard-vtmf"):
        need(p, "typechange", ("both", "vonly"))
        need(p, "nonmember", ("both", "vonly"))
    for p in ("vtmf/decrypt", "tmcg/cardsecret-vtmf"):
        need(p, "otherkey", ("both", "vonly", "both-foreign-identity", "vonly-othercard"))
    for p in ("groth/skc-interactive", "groth/skc-publiccoin", "groth/skc-noninteractive"):
        need(p, "subst-message", ("both", "vonly"))
    for kind in ("retype", "jacobi"):
        need("tmcg/maskcard-qr", kind, ("both", "vonly"))
        need("tmcg/cardsecret-qr", kind, ("vonly",))
    need("tmcg/maskcard-qr", "maskflip", ("fitting-witness",))
    need("tmcg/cardsecret-qr", "otherkey", ("both",))
    return names


def prebuild(repo):
    stage("w_c04", repo)
    stage("w_c04", repo, flavour="fast")


def spec(tier, seed, repo):
    quick = tier == "quick"
    floors = _fs_floor_names()
    floors.update({
        "fs_runs": 900 if quick else 4000,
        "fs_cc_runs": 150,
        "fs_cc_accepted_prepared": 10,          # the "prepared string" model of the library prover was confirmed
        "fs_cc_rejected_unprepared": 100,
        "control_runs": 100,
        "guess_pairs": 1500 if quick else 5000,
        "guess_accepted_equal": 250,
        "guess_rejected_unequal": 1000,
        "guess_exhaustive_rows_exactly_one_accepted": 160 if quick else 1000,
        "guess_pairs/tmcg/stackeq-vtmf/kappa=4": 256, "guess_pairs/tmcg/stackeq-qr/kappa=4": 256,
        "guess_pairs/tmcg/stackeq-vtmf/kappa=8": 80, "guess_pairs/tmcg/stackeq-vtmf/kappa=16": 80,
        "guess_pairs/tmcg/stackeq-qr/kappa=8": 80, "guess_pairs/tmcg/stackeq-qr/kappa=16": 80,
        "guess_pairs/tmcg/maskcard-qr/kappa=3": 64, "guess_pairs/tmcg/cardsecret-qr/kappa=3": 64,
    })
    stages = [stage("w_c04", repo, nshards=16, case_timeout=600 if quick else 3000, total_timeout=7200)]
    if not quick:
        floors.update({"guess_pairs/tmcg/stackeq-vtmf/kappa=80": 40, "guess_pairs/tmcg/stackeq-vtmf/kappa=8": 65536,
                       "guess_pairs/tmcg/stackeq-qr/kappa=8": 65536})
        stages.append(stage("w_c04", repo, flavour="fast", args=["--opt", "part=guessfast", "--opt", "kmax=8"],
                            nshards=16, case_timeout=1200, total_timeout=7200, label="w_c04-guessfast"))
    return dict(
        stages=stages,
        level="exploration",
        rule="(a) one case = (parameter world, prover/verifier pair, kind of false statement); inside, a true statement "
             "is built per size n, accepted once as control, and for every position (all for n<=3 quick / n<=8 thorough) "
             "and prover strategy (both = library prover run on the false statement with the non-fitting witness; "
             "vonly = honest prover of the original statement or its recorded transcript, only the verifier sees the "
             "false statement) the derived statement is first checked to be really false with the secrets the harness "
             "holds (decryption / residuosity), then run; distinct = (world, pair, variant, kind, strategy, n, position, "
             "detail[, observed coins]) tuples; non-trivial = at least one verdict judged.  Cut-and-choose pairs: the "
             "strategy is prepared for 1^k (both) / 0^k (vonly); verifier coins are scripted, accepted <=> observed "
             "challenge string == prepared string.  (b) one case = (pair, false statement, kappa, guess string) with all "
             "2^kappa scripted coin strings (exhaustive) or a block of sampled (guess, coins) pairs (half of them equal); "
             "verdict true <=> guess == challenge string observed on the wire",
        assumptions=["soundness against arbitrary provers is computational and not decided; only the listed prover strategies run",
                     "honest-run failure probabilities of the protocols themselves (< 2^-40 for 512/160, l_e=40) are ignored",
                     "size-changing edits (dropped card) are presented to the TMCG_* verifiers only: the argument classes "
                     "called directly (GrothVSSHE, HooghSchoenmakersSkoricVillegasVRHE) assert equal vector sizes as a "
                     "documented precondition; non-member substitution likewise only where a membership check of the "
                     "output stack is part of the verifier (TMCG_*, masking verifiers)",
                     "QR encoding: a card component with Jacobi symbol -1 or a flipped residuosity is the false statement; "
                     "truth is decided with both players' secret keys",
                     "worlds: 512/160 random g and GroupQR (quick); thorough adds canonical g and 512/256 l_e=80"],
        floors=floors,
    )
