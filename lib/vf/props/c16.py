"""C16 - threshold signatures verify under the jointly generated key.

The harness (harness/w_c16.cc) only produces records; every verdict about a signature is taken
here with the independent reference ref/c16_ref.py (textbook Schnorr / DSA equations, library hash
re-implemented with hashlib)."""
import json
import os
import subprocess

from . import stage
from .. import runner

import c16_ref

FLAVOURS = ["san"]


def prebuild(repo):
    stage("w_c16", repo)


def _scen_class(rec):
    return "faulty-signer" if rec.get("faulty") else "all-honest"


def _key(sch, symptom, rec, erased=False, hbt=False):
    """violation key  C16/<scheme>/[<root-cause marker>/]<symptom>/<scenario class>.
    Markers (observations of the library's own log lines, they classify, they never excuse):
      dkg-erased-party          DL-Key-Gen (key generation or the a-generation inside this Sign) logged
                                "party erased from QUAL" after the Joint-RVSS that fixed the shares
      honest-broadcast-timeout  an honest party's DeliverFrom ran into its time-out waiting for an honest
                                party earlier in this scenario: the synchronous broadcast the protocols
                                assume was not provided by the library's broadcast in this run"""
    marker = "+".join(m for m, on in (("dkg-erased-party", erased), ("honest-broadcast-timeout", hbt)) if on)
    marker = marker + "/" if marker else ""
    return "C16/%s/%s%s/%s" % (sch, marker, symptom, _scen_class(rec))


def post(recs, merged):
    viols = []
    seen = set()
    cnt = merged["counts"]
    obs = merged["obs"]

    def bump(name, n=1):
        cnt[name] = cnt.get(name, 0) + n

    def viol(key, what, case, witness, desc=""):
        # keep every witness of the first few per key small; the runner prints the first per key
        if (key, case) in seen:
            return
        seen.add((key, case))
        viols.append(dict(key=key, what=what, case=case, witness=witness, desc=desc, stage=0))

    grp = {}
    hv = {}
    by_case = {}
    for r in recs:
        k = r.get("k")
        c = r.get("case")
        if k == "grp":
            grp[c] = dict(p=int(r["p"]), q=int(r["q"]), g=int(r["g"]), h=int(r["h"]))
        elif k == "hv":
            hv[c] = r
        else:
            by_case.setdefault(c, []).append(r)

    # the reference hash must reproduce the library's hash on the emitted test vectors; a mismatch
    # is reported as an observation (it explains Schnorr verdicts), never hidden
    hash_ok = hash_bad = 0
    for c, r in hv.items():
        G = grp.get(c)
        ok = int(r["h_255_m4096"]) == c16_ref.shash_ints(255, -4096)
        if G:
            ok = ok and int(r["h_p_q"]) == c16_ref.shash_ints(G["p"], G["q"])
        if ok:
            hash_ok += 1
        else:
            hash_bad += 1
    obs["hash_test_vectors_matching_reference"] = hash_ok
    obs["hash_test_vectors_not_matching_reference"] = hash_bad

    samples = []
    for c, rs in sorted(by_case.items(), key=lambda kv: (kv[0] is None, kv[0])):
        G = grp.get(c)
        if G is None:
            raise runner.Harness("case %s has records but no group record" % c)
        p, q, g = G["p"], G["q"], G["g"]
        # ---------------- verifier probes
        for r in rs:
            if r.get("k") != "vp":
                continue
            sch = r["scheme"]
            ref = c16_ref.verify(sch, p, q, g, int(r["y"]), int(r["m"]), int(r["a"]), int(r["s"]))
            bump("%s_probes_judged" % sch)
            if r["mut"] == "identity":
                bump("%s_probe_base_signatures_%s" % (sch, "valid" if ref else "INVALID"))
            if ref:
                bump("%s_probes_reference_valid" % sch)
            if bool(r["lv"]) != ref:
                kind = "accepts-invalid" if r["lv"] else "rejects-valid"
                viol("C16/%s/verify/%s/%s" % (sch, kind, r["mut"]),
                     "%s::Verify %s a triple that the textbook equation with range conditions %s "
                     "(mutation %s of a valid signature on message %s)"
                     % ("NTS" if sch == "nts" else "DSS", "accepts" if r["lv"] else "rejects",
                        "rejects" if r["lv"] else "accepts", r["mut"], r["mname"]),
                     c, dict(group=dict(p=str(p), q=str(q), g=str(g)), y=r["y"], m=r["m"], a=r["a"], s=r["s"],
                             library_verdict=r["lv"], reference_verdict=ref, mutation=r["mut"]))
        # ---------------- protocol runs
        runrec = [r for r in rs if r.get("k") == "run"]
        keys = [r for r in rs if r.get("k") == "key"]
        sigs = [r for r in rs if r.get("k") == "sig"]
        if not runrec:
            continue
        rr = runrec[0]
        sch = rr["scheme"]
        cls = _scen_class(rr)
        # honest-to-honest broadcast time-outs seen up to and including each phase
        hbt_upto = {}
        acc = 0
        for ph in sorted(set(r["ph"] for r in keys + sigs)):
            acc += sum(r.get("hbt", 0) for r in keys + sigs if r["ph"] == ph and r["honest"])
            hbt_upto[ph] = acc
        if acc:
            bump("%s_scenarios_with_honest_broadcast_timeout" % sch)
        t = rr["thr"]
        desc = json.dumps({k: rr[k] for k in ("scheme", "n", "thr", "faulty", "fmode", "keygen_faulty", "cut", "subset")})
        # did the key generation drop a party after the Joint-RVSS for x (library log line)?
        key_erased = any(r.get("erased", 0) > 0 for r in keys if r["honest"] and r["phase"] == "gen")
        if key_erased:
            bump("%s_keygen_with_party_erased_after_joint_rvss" % sch)
        # public key: equal at all honest parties that finished key generation, unchanged afterwards
        y_ref = None
        byph = {}
        for r in keys + sigs:
            byph.setdefault(r["ph"], []).append(r)
        for ph in sorted(byph):
            prs = byph[ph]
            hon = [r for r in prs if r["honest"] and r["ret"]]
            ys = set(r["y"] for r in hon)
            if len(ys) > 1:
                viol(_key(sch, "public-key-differs", rr, key_erased, hbt_upto.get(ph, 0) > 0),
                     "honest parties hold different public keys y after phase %s" % prs[0]["phase"], c,
                     dict(scenario=rr, phase=prs[0]["phase"], y_by_party={str(r["party"]): r["y"] for r in hon}), desc)
            if len(ys) == 1:
                yv = int(next(iter(ys)))
                if y_ref is None:
                    y_ref = yv
                elif yv != y_ref:
                    viol(_key(sch, "public-key-changed", rr, key_erased, hbt_upto.get(ph, 0) > 0),
                         "the public key after phase %s differs from the one after key generation" % prs[0]["phase"],
                         c, dict(scenario=rr, phase=prs[0]["phase"], y_keygen=str(y_ref), y_now=str(yv)), desc)
            # the key really is g^x for the shared secret x (threshold DSS: Shamir shares x_i at i+1;
            # threshold Schnorr: additive shares z_i, only computable here when everybody is honest)
            if prs[0]["k"] == "key" and len(ys) == 1:
                yv = int(next(iter(ys)))
                if sch == "dss" and len(hon) >= t + 1:
                    pts = [(r["party"] + 1, int(r["share"])) for r in hon[:t + 1]]
                    x = c16_ref.lagrange_at_zero(pts, q)
                    bump("dss_key_share_checks")
                    if pow(g, x, p) != yv:
                        viol(_key("dss", "public-key-not-of-shared-secret", rr, key_erased, hbt_upto.get(ph, 0) > 0),
                             "g^x != y for the secret x interpolated from t+1 honest shares after %s" % prs[0]["phase"],
                             c, dict(scenario=rr, phase=prs[0]["phase"], parties=[r["party"] for r in hon[:t + 1]], y=str(yv)), desc)
                if sch == "nts" and not rr["faulty"] and len(hon) == rr["n"]:
                    x = sum(int(r["share"]) for r in hon) % q
                    bump("nts_key_share_checks")
                    if pow(g, x, p) != yv:
                        viol(_key("nts", "public-key-not-of-shared-secret", rr, False, hbt_upto.get(ph, 0) > 0),
                             "g^(sum z_i) != y after key generation", c, dict(scenario=rr, y=str(yv)), desc)
        # signatures
        sph = {}
        for r in sigs:
            sph.setdefault(r["ph"], []).append(r)
        for ph in sorted(sph):
            prs = sph[ph]
            judged = [r for r in prs if r["honest"] and r["ret"]]
            if not judged:
                bump("%s_signing_runs_not_judged_no_honest_output" % sch)
                continue
            m = int(prs[0]["m"])
            phase = prs[0]["phase"]
            sign_erased = any(r.get("erased", 0) > 0 for r in judged)
            if sign_erased:
                bump("%s_signing_runs_with_party_erased_after_joint_rvss" % sch)
            hb = hbt_upto.get(ph, 0) > 0
            outs = set((r["a"], r["s"]) for r in judged)
            if len(outs) > 1:
                viol(_key(sch, "signatures-differ", rr, sign_erased or key_erased, hbt_upto.get(ph, 0) > 0),
                     "honest parties whose Sign returned true hold different signatures (%s phase)" % phase, c,
                     dict(scenario=rr, phase=phase, m=prs[0]["m"],
                          outputs={str(r["party"]): [r["a"], r["s"]] for r in judged}), desc)
            allvalid = True
            for r in judged:
                yv = int(r["y"])
                ok = c16_ref.verify(sch, p, q, g, yv, m, int(r["a"]), int(r["s"]))
                bump("%s_outputs_judged" % sch)
                bump("%s_outputs_judged_%s" % (sch, phase))
                if r["faulty"]:
                    bump("%s_outputs_judged_with_faulty_signer" % sch)
                if ok:
                    bump("%s_outputs_valid" % sch)
                else:
                    allvalid = False
                    viol(_key(sch, "invalid-signature-completed", rr, sign_erased or key_erased, hb),
                         "Sign returned true at an honest party but the output is not a valid %s signature on the "
                         "message under the public key (n=%d t=%d faulty=%s phase=%s)"
                         % ("Schnorr" if sch == "nts" else "DSA", rr["n"], rr["thr"], rr["faulty"], phase), c,
                         dict(scenario=rr, phase=phase, party=r["party"], m=r["m"], a=r["a"], s=r["s"], y=r["y"],
                              group=dict(p=str(p), q=str(q), g=str(g)), library_verify=r["lv"],
                              party_erased_after_joint_rvss=dict(in_this_sign=sign_erased, in_key_generation=key_erased),
                              honest_broadcast_timeouts_so_far=hbt_upto.get(ph, 0),
                              all_outputs={str(x["party"]): [x["ret"], x["a"], x["s"]] for x in prs}), desc)
                if bool(r["lv"]) != ok:
                    viol("C16/%s/verify/own-output-%s" % (sch, "accepted-invalid" if r["lv"] else "rejected-valid"),
                         "the library's Verify and the reference disagree on a threshold signing output", c,
                         dict(scenario=rr, phase=phase, party=r["party"], m=r["m"], a=r["a"], s=r["s"], y=r["y"],
                              library_verify=r["lv"], reference=ok), desc)
            if allvalid and len(outs) == 1:
                bump("%s_signing_runs_judged_valid" % sch)
                if rr["faulty"]:
                    bump("%s_signing_runs_judged_valid_with_faulty_signer" % sch)
                if len(samples) < 3:
                    samples.append(dict(scheme=sch, n=rr["n"], t=rr["thr"], faulty=rr["faulty"], phase=phase,
                                        message=prs[0]["mname"], honest_outputs=len(judged), verdict="valid, identical"))
    obs["judged_samples"] = samples
    return viols


def spec(tier, seed, repo):
    q = tier == "quick"
    floors = {
        "nts_completed_signing_runs": 10, "dss_completed_signing_runs": 10,
        "nts_completed_with_faulty_signer": 3, "dss_completed_with_faulty_signer": 3,
        "nts_signing_runs_judged_valid": 10, "dss_signing_runs_judged_valid": 10,
        "nts_outputs_judged_with_faulty_signer": 3, "dss_outputs_judged_with_faulty_signer": 3,
        "dss_sign_refreshed_completed": 3, "dss_sign_reduced_completed": 3,
        "nts_probes_judged": 200, "dss_probes_judged": 200,
        "nts_probes_reference_valid": 10, "dss_probes_reference_valid": 10,
        # one altered broadcast at enumerated positions of the signing phase
        "dss_bcalter_fired": 20 if q else 130, "nts_bcalter_fired": 6 if q else 20,
        "dss_completed_fmode_bcalter": 12 if q else 80,
    }
    return dict(
        stages=[stage("w_c16", repo, nshards=16, case_timeout=600 if q else 2400,
                      total_timeout=3600 if q else 4 * 3600)],
        level="exploration",
        rule="one 'run' case = one SimNet scenario (scheme, n, t, faulty signer set, fault mode, repetition): key "
             "generation, then signing phases (threshold Schnorr: the five catalogue messages 0, 1, q-1, q, random 256 bit; threshold DSS: fresh, "
             "after Refresh, reduced signer set of n-1) with seeded scheduling; evaluations = outputs of honest parties "
             "whose Sign returned true (each judged offline by the Python reference), distinct = signing phases with at "
             "least one such output; one 'vp' case = the range-boundary catalogue (29 mutations x 6 messages) around "
             "textbook signatures on one group, evaluations = probes whose library verdict is compared with the reference",
        assumptions=[
            "synchronous network in its strongest form: virtual time advances only when no party can run",
            "faulty parties use the library's simulate_faulty_behaviour switch (coins of the library, or scripted "
            "top-level coins of DSS::Sign to reach later drop-out points); they keep serving the reliable broadcast",
            "fault mode bcalter: honest code, the payload of the k-th own reliable broadcast of the signing phase is "
            "altered by +1 for every recipient (every k for n = 4 in the thorough tier, 24 spread positions quick)",
            "a deviating party is only placed where the broadcast tolerates it (3t < n)",
            "runs in which Sign returns false are recorded, not judged",
            "512/160-bit groups",
        ],
        floors=floors, post=post)


def replay(rp, repo):
    """re-run the recorded case and judge its records again"""
    sp = spec(rp.get("tier", "quick"), rp.get("seed", 1), repo)
    binary = sp["stages"][0]["binary"]
    args = rp.get("args") or ["--tier", rp.get("tier", "quick"), "--seed", str(rp.get("seed", 1))]
    env = dict(os.environ)
    env.update(runner.SAN_ENV)
    cmd = [binary] + args + ["--only", str(rp["case"]), "--out", "-"]
    print("replaying: %s" % " ".join(cmd))
    r = subprocess.run(cmd, env=env, stdout=subprocess.PIPE, stderr=subprocess.STDOUT)
    recs, bad = [], r.returncode != 0
    for line in r.stdout.decode(errors="replace").splitlines():
        if not line.startswith("{"):
            print(line)
            continue
        try:
            o = json.loads(line)
        except ValueError:
            continue
        if o.get("t") == "rec":
            recs.append(o)
        elif o.get("t") == "viol":
            bad = True
            print("reproduced: key=%s %s" % (o.get("key"), o.get("what")))
    merged = dict(counts={}, obs={})
    for v in post(recs, merged):
        bad = True
        print("reproduced: key=%s %s" % (v["key"], v["what"]))
        print(json.dumps(v["witness"])[:2000])
    if bad:
        print("VIOLATION property=C16 replay=%s" % rp.get("_path", ""))
    return 1 if bad else 0
