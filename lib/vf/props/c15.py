from . import stage

FLAVOURS = ["san"]

PROTOS = ["pvss", "gjkr", "rvss", "zvss", "cdkg", "jlrvss"]


def prebuild(repo):
    stage("w_c15", repo)


def spec(tier, seed, repo):
    import os
    quick = tier == "quick"
    # selftest aid: C15_PROTO=<0..5|name> restricts the scenario list to one protocol (floors then miss -> exit 2 unless a violation is found)
    only = os.environ.get("C15_PROTO", "")
    args = []
    if only:
        idx = PROTOS.index(only) if only in PROTOS else int(only)
        args = ["--opt", "proto=%d" % idx]
    floors = {}
    # every protocol x {all honest, one faulty} must have reached the oracle
    for p in PROTOS:
        floors["oracle.%s.honest" % p] = 4 if quick else 20
        floors["oracle.%s.faulty1" % p] = 6 if quick else 40
        floors["dev.%s.builtin" % p] = 3 if quick else 20
    floors.update({
        "subsets_interpolated": 400 if quick else 8000,
        "pvss_reconstruct_checked": 8 if quick else 60,
        "refresh_checked": 6 if quick else 60,
        "refresh_changed_shares": 6 if quick else 60,
        "path.share_adjusted": 2 if quick else 30,
        "path.public_reconstruction": 6 if quick else 60,
        "path.party_disqualified": 4 if quick else 60,
        "path.complaint_received": 6 if quick else 80,
        "net.delays": 6 if quick else 40,
        "net.preemption": 6 if quick else 40,
        "dev_fired_parties": 20 if quick else 300,
    })
    return dict(
        stages=[stage("w_c15", repo, args=args, nshards=16, case_timeout=600 if quick else 1800,
                      total_timeout=7200 if quick else 43200)],
        level="exploration",
        rule="one case = one scenario (protocol, n, t, faulty set, deviation script per faulty party, "
             "network mode {plain, link delays below the time-out, random pre-emption}, scheduler seed): "
             "n parties run the library protocol as cooperative tasks over SimNet, afterwards the end-state "
             "monitor (own Lagrange interpolation over Z_q) compares the honest parties' QUAL, y, "
             "commitments and verification keys, checks every honest share against them and interpolates "
             "every (deg+1)-subset of honest shares; evaluations = oracle comparisons; a case is "
             "non-trivial if all honest parties completed and the oracle compared their state; distinct "
             "= scenarios with distinct tuples (protocol, n, t, faulty set, scripts, net mode, seed)",
        assumptions=[
            "synchrony as the protocols assume it: a message between honest parties arrives before the "
            "time-out (virtual time advances only when every party waits; link delays <= 3 s against "
            "30 s time-outs)",
            "at most t parties deviate, 2t < n, and 3t < n (the reliable broadcast's bound, t passed to "
            "CachinKursawePetzoldShoupRBC as in the repository's tests) as soon as one party deviates",
            "deviating parties are scripted, not adaptive: the library's simulate_faulty_behaviour "
            "switches, a wrong share to one recipient, a complaint value injected into the party's own "
            "broadcast stream, silence from its k-th broadcast on, one altered broadcast payload",
            "512/160-bit groups (2048/256 for n=3 in the thorough tier); h = g^x for a discarded x",
            "the state of deviating parties is not judged",
        ],
        floors=floors,
    )
