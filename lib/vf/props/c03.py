from . import stage

FLAVOURS = ["san"]

PAIRS = ["vtmf/key-nizk", "vtmf/key-interactive", "vtmf/key-publiccoin", "vtmf/cp-plain", "vtmf/cp-table",
         "vtmf/or-first", "vtmf/or-second", "vtmf/mask", "vtmf/remask", "vtmf/decrypt",
         "tmcg/maskcard-vtmf", "tmcg/cardsecret-vtmf", "tmcg/stackeq-vtmf", "tmcg/stackeq-vtmf-cyclic",
         "tmcg/groth", "tmcg/groth-noninteractive", "tmcg/hoogh", "tmcg/hoogh-noninteractive",
         "groth/vsshe-interactive", "groth/vsshe-publiccoin", "groth/vsshe-noninteractive",
         "groth/skc-interactive", "groth/skc-publiccoin", "groth/skc-noninteractive",
         "hoogh/vrhe-interactive", "hoogh/vrhe-publiccoin", "hoogh/vrhe-noninteractive",
         "hoogh/pubrotzk-interactive", "hoogh/pubrotzk-publiccoin", "hoogh/pubrotzk-noninteractive",
         "pedersen/commit", "pedersen/trapdoor-commit", "edcf/flip-twoparty",
         "tmcg/maskcard-qr", "tmcg/cardsecret-qr", "tmcg/stackeq-qr", "tmcg/stackeq-qr-cyclic",
         "rabin/sign", "rabin/key-nizk"]


def prebuild(repo):
    stage("w_c03", repo)


def spec(tier, seed, repo):
    floors = {"runs/" + p: (2 if p != "rabin/key-nizk" else 1) for p in PAIRS}
    return dict(
        stages=[stage("w_c03", repo, nshards=16, case_timeout=600 if tier == "quick" else 3000,
                      total_timeout=7200)],
        level="exploration",
        rule="one case = (parameter world, prover/verifier pair); inside, for each stack size n and repetition a "
             "fresh true statement is built and the library prover and verifier run as two cooperative tasks over "
             "line channels (non-interactive proofs: prover writes, verifier reads); evaluations = runs; a run is "
             "non-trivial when the verifier returned; distinct = (world, pair, n, repetition) tuples; the floors "
             "require every pair of the registry to be exercised",
        assumptions=["honest-run failure probabilities inherent to the protocols (< 2^-40) are ignored",
                     "GrothSKC f_prime overloads are exercised only through GrothVSSHE",
                     "worlds: 512/160 (l_e=40) with random g, canonical g and GroupQR; 512/256 (l_e=80); "
                     "thorough adds 2048/256"],
        floors=floors,
    )
