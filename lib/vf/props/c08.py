from . import stage

FLAVOURS = ["san"]


def prebuild(repo):
    stage("w_c08", repo)


def post(recs, merged):
    """Independent re-check of the recorded histories with Python integers: per player the set of
    accepted contributions; after every recorded operation h == h_own * prod(accepted) mod p and
    NumberOfKeys == |accepted|; return values as the sequential model expects them."""
    by_case = {}
    for r in recs:
        by_case.setdefault(r.get("case"), []).append(r)
    viols, seen = [], set()
    nops = nworlds = 0

    def viol(key, what, case, wit):
        if key in seen:
            return
        seen.add(key)
        viols.append(dict(key=key, what=what, case=case, witness=wit, desc="offline model"))

    for case, rs in by_case.items():
        world = None
        acc, tainted = {}, set()
        for r in rs:
            if r.get("r") == "world":
                world = dict(p=int(r["p"]), keys=[int(x) for x in r["keys"]], cls=r["cls"])
                acc = {i: set() for i in range(len(world["keys"]))}
                tainted = set()
                nworlds += 1
                continue
            if r.get("r") != "op" or world is None:
                continue
            nops += 1
            pl, op, src, ex, ret = r["pl"], r["op"], r["src"], r["ex"], r["ret"]
            if pl in tainted:
                continue
            cls = world["cls"]
            if ex in ("dup", "unjudged"):
                tainted.add(pl)
                continue
            if op == "U":
                if ex == "accept":
                    if ret != 1:
                        viol("C08/%s/offline/valid-contribution-refused" % cls, "offline model: valid contribution refused", case, r)
                    else:
                        acc[pl].add(src)
                elif ex == "refuse":
                    if ret != 0:
                        viol("C08/%s/offline/malformed-contribution-accepted" % cls, "offline model: malformed contribution accepted", case, r)
                        tainted.add(pl)
                        continue
                elif ex == "either" and ret == 1:
                    acc[pl].add(src)
            elif op == "R":
                if ex == "accept":
                    if ret != 1:
                        viol("C08/%s/offline/remove-member-refused" % cls, "offline model: removal of an accepted contribution refused", case, r)
                    else:
                        acc[pl].discard(src)
                elif ex == "refuse":
                    if ret != 0:
                        viol("C08/%s/offline/remove-nonmember-accepted" % cls, "offline model: removal of a non-member returned true", case, r)
                        tainted.add(pl)
                        continue
                elif ex == "either" and ret == 1:
                    acc[pl].discard(src)
            elif ret != 1:
                viol("C08/%s/offline/%s-failed" % (cls, "finalize" if op == "F" else "masking"), "offline model: honest operation failed", case, r)
            h = world["keys"][pl]
            for a in acc[pl]:
                h = h * world["keys"][a] % world["p"]
            if h != int(r["h"]):
                viol("C08/%s/offline/h-mismatch" % cls, "offline model: h != h_own * prod(accepted) mod p", case,
                     dict(record=r, model_h=str(h), accepted=sorted(acc[pl])))
                tainted.add(pl)
            if r["n"] != len(acc[pl]):
                viol("C08/%s/offline/number-of-keys" % cls, "offline model: NumberOfKeys != |accepted|", case,
                     dict(record=r, accepted=sorted(acc[pl])))
                tainted.add(pl)
    merged["obs"]["offline_model_operations"] = nops
    merged["obs"]["offline_model_worlds"] = nworlds
    merged["counts"]["offline_model_operations"] = nops
    merged["recs"] = []
    return viols


def spec(tier, seed, repo):
    quick = tier == "quick"
    return dict(
        stages=[stage("w_c08", repo, nshards=16, case_timeout=240 if quick else 900,
                      total_timeout=1800 if quick else 5400)],
        level="exploration",
        rule="one case = one history on a fresh world of k player instances sharing one group: (orders) a block of "
             "processing orders of all k contributions at every player, each followed by agreement check, "
             "Finalize, masking+decryption round and removal of everything; (catalogue) one (field, mutation) of "
             "the published key text (h_j, c, r) submitted to UpdateKey and RemoveKey, as a new and as an already "
             "accepted player's contribution; (random) a random interleaving of add/remove/malformed/finalize/"
             "masking operations over 2..8 players with a closing phase.  evaluations = oracle comparisons "
             "(state checks after every operation, ciphertext and plaintext checks); distinct = histories",
        assumptions=["reference model: h == h_own * prod(accepted public keys) mod p recomputed from scratch with GMP "
                     "after every operation, and again offline with Python integers from the operation records",
                     "re-submission of an already accepted contribution is executed and recorded, the instance is "
                     "not judged afterwards (duplicates are unspecified)",
                     "a contribution text without the final newline carries the same values: outcome not judged, "
                     "the model follows the return value; RemoveKey with an intact key line but altered proof "
                     "fields likewise (removal is by key value)",
                     "v-q (same residue, negative) is not in the mutation catalogue (DESIGN C05 policy)",
                     "512/160-bit groups (GroupQR: 512-bit safe prime, 160-bit exponents); thorough: the random-g "
                     "dlog group has the library default sizes 2048/256"],
        floors={"orders_processed": 90 if quick else 400, "catalogue_histories": 150, "random_histories": 400 if quick else 5000,
                "update_valid": 5000, "update_malformed": 3000, "remove_member": 2000, "remove_nonmember": 1500,
                "masking_rounds": 300, "decryption_rounds": 250, "agreement_checks": 500,
                "offline_model_operations": 20000, "duplicate_resubmissions_not_judged": 100},
        post=post,
    )
