"""Data behind MANIFEST.json (bin/mkmanifest).  A property is listed under checks
only when its entry has ready=True; otherwise it is listed under not_applicable."""

NOT_YET = "no runtime monitor has been built for this property yet (work in progress); nothing is claimed"
HOOK_COMMITS = []
NOTES = ("Technique family: runtime monitoring and sanitizers.  Every check compiles libTMCG from the "
         "current working tree of /repo (ASan+UBSan unless stated), drives the real code through hostile "
         "workloads and decides with oracles written for this task; see DESIGN.md.  Exit 2 = harness "
         "failure or inconclusive (too few events observed).")
ENGINES = [
    dict(name="build-cache", path="lib/vf/build.py", serves_properties=["C%02d" % i for i in range(1, 21)],
         kind_free_text="out-of-tree sanitizer/fast/fuzz builds of /repo/src keyed by a hash of the working tree"),
    dict(name="case-runner", path="lib/vf/runner.py", serves_properties=["C%02d" % i for i in range(1, 21)],
         kind_free_text="crash-isolating sharded case runner, violation keys, known-findings matching, evidence"),
    dict(name="interposition", path="harness/interpose.cc", serves_properties=["C%02d" % i for i in range(1, 21)],
         kind_free_text="deterministic per-task PRNG behind gcry_randomize/gcry_create_nonce, virtual time()/select()/sleep(), memoised KDF"),
    dict(name="two-party-engine", path="harness/engine.hh", serves_properties=["C01", "C03", "C04", "C05", "C08", "C10", "C17", "C18"],
         kind_free_text="cooperative tasks + duplex line channels with transcript, relay (man in the middle), scripted coins, EOF on stall"),
    dict(name="simnet", path="harness/engine.hh", serves_properties=["C11", "C15", "C16", "C17"],
         kind_free_text="deterministic n-party simulator: in-memory aiounicast, virtual clock, seeded scheduler, link faults, phase barrier"),
]

SAN_NOTE = ("trusted base: g++ 12 ASan/UBSan runtimes, GMP, the harness engines (harness/*.hh) and the driver "
            "(lib/vf); 512-bit groups unless stated; only executions the workload produces are judged")

CHECKS = {
    "C01": dict(ready=True, engine="two-party-engine", level="exploration", design_ref="DESIGN.md section 3 / C01",
                technique="reference-model monitor (creation type) over sanitizer-instrumented executions",
                text="Every card opening produced by the workload (both encodings, three group kinds, k up to 16, all "
                     "types for small w, random re-masking chains, timing protection on/off, every opener; partial "
                     "openings for the dlog encoding) is compared with the type the card was created with, under "
                     "ASan+UBSan.  Exploration is the right level: the property quantifies over unbounded chains and "
                     "coins, which only sampling reaches.",
                note=SAN_NOTE),
    "C03": dict(ready=True, engine="two-party-engine", level="exploration", design_ref="DESIGN.md section 3 / C03",
                technique="expected-accept monitor over honest prover/verifier executions on line channels (ASan+UBSan)",
                text="All 39 public prover/verifier pairs of the library (harness/protos.hh: key share proofs, CP/OR, masking, "
                     "re-masking, decryption, card and stack proofs in cut-and-choose / interactive / public-coin / "
                     "non-interactive form, Groth and rotation arguments directly, commitments, coin flip, Rabin key "
                     "validity and signatures) are run honestly as two cooperative tasks over in-memory line channels for "
                     "several parameter worlds, sizes and coins; the verifier must accept every run.  Floors make a run "
                     "that did not exercise every pair inconclusive.",
                note=SAN_NOTE),
    "C02": dict(ready=True, engine="two-party-engine", level="exploration", design_ref="DESIGN.md section 3 / C02, notes/c02.md",
                technique="reference-model monitor: opened types vs. index component of the stack secret; bijection/rotation checks; import acceptance vs. sort-and-compare reference",
                text="Every shuffle produced by the workload (all n! given permutations for n<=5, generated and cyclic secrets "
                     "for n=1..64,128,511,512, chains of shuffles by several players, both encodings, repeated types) is opened "
                     "card by card and compared with type(in[pi[i]]); generated secrets must be bijections / rotations by the "
                     "reported offset; import() must accept exactly the bijective index vectors (all n^n vectors for small n, "
                     "out-of-range values, import into used objects).",
                note=SAN_NOTE),
}
