"""Data behind MANIFEST.json (bin/mkmanifest).  A property is listed under checks
only when its entry has ready=True; otherwise it is listed under not_applicable."""

NOT_YET = "no runtime monitor has been built for this property yet (work in progress); nothing is claimed"
HOOK_COMMITS = []
NOTES = ("Technique family: runtime monitoring and sanitizers.  Every check compiles libTMCG from the "
         "current working tree of /repo (ASan+UBSan unless stated), drives the real code through hostile "
         "workloads and decides with oracles written for this task; see DESIGN.md.  Exit 2 = harness "
         "failure or inconclusive (too few events observed).")
ENGINES = [
    dict(name="build-cache", path="lib/vf/build.py", serves_properties=["C%02d" % i for i in range(1, 21)],
         kind_free_text="out-of-tree sanitizer/fast/fuzz builds of /repo/src keyed by a hash of the working tree"),
    dict(name="case-runner", path="lib/vf/runner.py", serves_properties=["C%02d" % i for i in range(1, 21)],
         kind_free_text="crash-isolating sharded case runner, violation keys, known-findings matching, evidence"),
    dict(name="interposition", path="harness/interpose.cc", serves_properties=["C%02d" % i for i in range(1, 21)],
         kind_free_text="deterministic per-task PRNG behind gcry_randomize/gcry_create_nonce, virtual time()/select()/sleep(), memoised KDF"),
    dict(name="two-party-engine", path="harness/engine.hh", serves_properties=["C01", "C03", "C04", "C05", "C08", "C10", "C17", "C18"],
         kind_free_text="cooperative tasks + duplex line channels with transcript, relay (man in the middle), scripted coins, EOF on stall"),
    dict(name="simnet", path="harness/engine.hh", serves_properties=["C11", "C15", "C16", "C17"],
         kind_free_text="deterministic n-party simulator: in-memory aiounicast, virtual clock, seeded scheduler, link faults, phase barrier"),
]

SAN_NOTE = ("trusted base: g++ 12 ASan/UBSan runtimes, GMP, the harness engines (harness/*.hh) and the driver "
            "(lib/vf); 512-bit groups unless stated; only executions the workload produces are judged")

CHECKS = {
    "C01": dict(ready=True, engine="two-party-engine", level="exploration", design_ref="DESIGN.md section 3 / C01",
                technique="reference-model monitor (creation type) over sanitizer-instrumented executions",
                text="Every card opening produced by the workload (both encodings, three group kinds, k up to 16, all "
                     "types for small w, random re-masking chains, timing protection on/off, every opener; partial "
                     "openings for the dlog encoding) is compared with the type the card was created with, under "
                     "ASan+UBSan.  Exploration is the right level: the property quantifies over unbounded chains and "
                     "coins, which only sampling reaches.",
                note=SAN_NOTE),
    "C03": dict(ready=True, engine="two-party-engine", level="exploration", design_ref="DESIGN.md section 3 / C03",
                technique="expected-accept monitor over honest prover/verifier executions on line channels (ASan+UBSan)",
                text="All 39 public prover/verifier pairs of the library (harness/protos.hh: key share proofs, CP/OR, masking, "
                     "re-masking, decryption, card and stack proofs in cut-and-choose / interactive / public-coin / "
                     "non-interactive form, Groth and rotation arguments directly, commitments, coin flip, Rabin key "
                     "validity and signatures) are run honestly as two cooperative tasks over in-memory line channels for "
                     "several parameter worlds, sizes and coins; the verifier must accept every run.  Floors make a run "
                     "that did not exercise every pair inconclusive.",
                note=SAN_NOTE),
    "C02": dict(ready=True, engine="two-party-engine", level="exploration", design_ref="DESIGN.md section 3 / C02, notes/c02.md",
                technique="reference-model monitor: opened types vs. index component of the stack secret; bijection/rotation checks; import acceptance vs. sort-and-compare reference",
                text="Every shuffle produced by the workload (all n! given permutations for n<=5, generated and cyclic secrets "
                     "for n=1..64,128,511,512, chains of shuffles by several players, both encodings, repeated types) is opened "
                     "card by card and compared with type(in[pi[i]]); generated secrets must be bijections / rotations by the "
                     "reported offset; import() must accept exactly the bijective index vectors (all n^n vectors for small n, "
                     "out-of-range values, import into used objects).",
                note=SAN_NOTE),
    "C06": dict(ready=True, engine="case-runner", level="fault_enumeration", design_ref="DESIGN.md section 3 / C06, notes/c06.md",
                technique="differential monitor: CheckGroup/CheckElement verdict vs. an independent GMP reference predicate over a single-field corruption catalogue",
                text="For 36 class descriptors (every group-carrying class, stream and parameter constructors, canonical on/off) each "
                     "generated set and each single-field corruption from a fixed catalogue (19 corruptions x 151 class/field cells, "
                     "other-valid-generator swaps, size and gcd variants) is re-imported and the library verdict must EQUAL the "
                     "reference verdict (so valid alternatives must be accepted); CheckElement is compared exhaustively over "
                     "[-2,p+2] on toy groups and sampled at 512 bits.  A fixed catalogue at every field is fault enumeration.",
                note=SAN_NOTE + "; reference predicate in harness/c06_ref.hh (plain GMP, 64 Miller-Rabin rounds); negative fields and TestMembership recorded, not judged"),
    "C07": dict(ready=True, engine="interposition", level="exploration", design_ref="DESIGN.md section 3 / C07, notes/c07.md",
                technique="statistical monitor: hard range oracle on every draw + chi-square goodness of fit (p<1e-9, re-test on an independent stream before alarm), p-values cross-checked by a Python reference",
                text="289 multinomial tables per run (full n! histograms n=3..6, position x value and adjacent-pair marginals up to n=64, "
                     "rotation offsets, bounded sampler for small moduli and moduli just above 2^63, residue sampler for 22 moduli, "
                     "bit strings) over ~5.6e7 draws with the interposed PRNG, plus a stage with the real libgcrypt RNG at all three "
                     "quality levels; every draw is range-checked.  Statistical exploration is what uniformity admits; biases below "
                     "~1/sqrt(N) per cell are out of reach.",
                note="fast (-O2) flavour, asserts on; false-alarm rate ~1e-18 per table by the two-sample rule; trusted: the chi-square implementation (cross-checked by ref/c07_chi2.py)"),
    "C08": dict(ready=True, engine="two-party-engine", level="exploration", design_ref="DESIGN.md section 3 / C08, notes/c08.md",
                technique="sequential reference-model monitor (set of accepted contributions, h recomputed with GMP and again in Python) after every API call",
                text="After every UpdateKey/RemoveKey/Finalize of every player instance h must equal h_own * prod(accepted) mod p and "
                     "NumberOfKeys must equal the model; all k! processing orders for k<=4, random add/remove histories for k<=8, a "
                     "malformed-contribution catalogue (3 fields x 17 mutations, crafted order-2 key) through both calls, both group "
                     "classes, closing masking/decryption round.  An offline Python model re-judges every recorded operation.",
                note=SAN_NOTE + "; duplicate re-submissions recorded, not judged"),
    "C09": dict(ready=True, engine="case-runner", level="exploration", design_ref="DESIGN.md section 3 / C09, notes/c09.md",
                technique="differential monitor against two independent references (GMP in the driver, Python big integers offline) over exhaustive small sweeps and random large operands",
                text="~3.6e7 evaluations per quick run: all exponentiation variants over all odd moduli < 200 and random 64..2048-bit "
                     "operands with all exponent classes and documented refusals; square roots for 306 primes with all residues and "
                     "276 Blum products; 2.7e7 interpolations incl. colliding abscissae; prime generators; mpz<->gcry_mpi; TMCG_Bigint "
                     "on both back ends vs. a Python model.  Full sweeps on the -O2 build, a sample under ASan+UBSan.",
                note="fast flavour for the sweeps, san flavour for ~10% of the cases; trusted: GMP reference calls, ref/c09_ref.py"),
    "C10": dict(ready=True, engine="case-runner", level="fault_enumeration", design_ref="DESIGN.md section 3 / C10, notes/c10.md",
                technique="round-trip and tamper monitor with a Python reference deciding equivalence (same square mod m) for every mutated field",
                text="Eight Rabin keys per run (424..1024 bit, with and without validity proof): signature and encryption round trips "
                     "(all four roots), and the QR mutation catalogue on every field of signature, ciphertext and key text, forged "
                     "SAEP/PRab paddings, re-signed invalid keys (fewer proof rounds, altered proof values); a Python reference "
                     "re-decides every recorded evaluation.",
                note=SAN_NOTE),
    "C11": dict(ready=True, engine="simnet", level="exploration", design_ref="DESIGN.md section 3 / C11, notes/c11.md",
                technique="round-trip monitor: export(import(export(x))) == export(x) and member/operator== comparison, incl. protocol states from real simulated n-party runs",
                text="~5000 objects per quick run: cards and card secrets for every (players, type bits) pair into fresh and used "
                     "objects, VTMF cards, stacks and stack secrets up to 512 cards (also through the stream operators), keys, group "
                     "parameter sets of 8 classes, 186 protocol states of PedersenVSS / DKG / RVSS / ZVSS / DSS produced by SimNet runs "
                     "(n=2..5), integers incl. the longest accepted text and refused longer ones.",
                note=SAN_NOTE + "; types without importer (TMCG_OpenStack, TMCG_PublicKeyRing, JL RVSS/EDCF, NTS) are out"),
    "C13": dict(ready=True, engine="interposition", level="fault_enumeration", design_ref="DESIGN.md section 3 / C13, notes/c13.md",
                technique="trace checker over SEND/WIRE/FEED/FAULT/RECV events of a harness-owned byte relay: equality / prefix / subsequence oracles per mode, re-judged offline in Python",
                text="Both channel classes x all 8 flag combinations: every single split point and every pair of split points of short "
                     "exchanges (2.9e5), random chunking of 200-message runs on 3 links with the three schedulers, values 0..maximum "
                     "size, negative values; every byte fault (flip, overwrite, insert, duplicate, delete, truncate) at every offset "
                     "and record faults (remove, replay, swap, foreign, forged) with subsequence resp. prefix oracles in the "
                     "authenticated modes; equal-integer and digit-exposure probes in the encrypted modes.",
                note=SAN_NOTE + "; confidentiality is a smoke test only; time is virtual (Receive time-out 0)"),
}
