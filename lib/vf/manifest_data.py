"""Data behind MANIFEST.json (bin/mkmanifest).  A property is listed under checks
only when its entry has ready=True; otherwise it is listed under not_applicable."""

NOT_YET = "no runtime monitor has been built for this property yet (work in progress); nothing is claimed"
HOOK_COMMITS = []
NOTES = ("Technique family: runtime monitoring and sanitizers.  Every check compiles libTMCG from the "
         "current working tree of /repo (ASan+UBSan unless stated), drives the real code through hostile "
         "workloads and decides with oracles written for this task; see DESIGN.md.  Exit 2 = harness "
         "failure or inconclusive (too few events observed).")
ENGINES = [
    dict(name="build-cache", path="lib/vf/build.py", serves_properties=["C%02d" % i for i in range(1, 21)],
         kind_free_text="out-of-tree sanitizer/fast/fuzz builds of /repo/src keyed by a hash of the working tree"),
    dict(name="case-runner", path="lib/vf/runner.py", serves_properties=["C%02d" % i for i in range(1, 21)],
         kind_free_text="crash-isolating sharded case runner, violation keys, known-findings matching, evidence"),
    dict(name="interposition", path="harness/interpose.cc", serves_properties=["C%02d" % i for i in range(1, 21)],
         kind_free_text="deterministic per-task PRNG behind gcry_randomize/gcry_create_nonce, virtual time()/select()/sleep(), memoised KDF"),
    dict(name="two-party-engine", path="harness/engine.hh", serves_properties=["C01", "C03", "C04", "C05", "C08", "C10", "C17", "C18"],
         kind_free_text="cooperative tasks + duplex line channels with transcript, relay (man in the middle), scripted coins, EOF on stall"),
    dict(name="simnet", path="harness/engine.hh", serves_properties=["C11", "C15", "C16", "C17"],
         kind_free_text="deterministic n-party simulator: in-memory aiounicast, virtual clock, seeded scheduler, link faults, phase barrier"),
]

SAN_NOTE = ("trusted base: g++ 12 ASan/UBSan runtimes, GMP, the harness engines (harness/*.hh) and the driver "
            "(lib/vf); 512-bit groups unless stated; only executions the workload produces are judged")

CHECKS = {
    "C01": dict(ready=True, engine="two-party-engine", level="exploration", design_ref="DESIGN.md section 3 / C01",
                technique="reference-model monitor (creation type) over sanitizer-instrumented executions",
                text="Every card opening produced by the workload (both encodings, three group kinds, k up to 16, all "
                     "types for small w, random re-masking chains, timing protection on/off, every opener; partial "
                     "openings for the dlog encoding; a rejected-then-resent contribution; worlds in which 1-2 players left after key generation) is compared with the type the card was created with, under "
                     "ASan+UBSan.  Exploration is the right level: the property quantifies over unbounded chains and "
                     "coins, which only sampling reaches.",
                note=SAN_NOTE),
    "C03": dict(ready=True, engine="two-party-engine", level="exploration", design_ref="DESIGN.md section 3 / C03",
                technique="expected-accept monitor over honest prover/verifier executions on line channels (ASan+UBSan)",
                text="All 39 public prover/verifier pairs of the library (harness/protos.hh; also in worlds whose importing instances declare smaller admissible sizes than the group has: key share proofs, CP/OR, masking, "
                     "re-masking, decryption, card and stack proofs in cut-and-choose / interactive / public-coin / "
                     "non-interactive form, Groth and rotation arguments directly, commitments, coin flip, Rabin key "
                     "validity and signatures) are run honestly as two cooperative tasks over in-memory line channels for "
                     "several parameter worlds, sizes and coins; the verifier must accept every run.  Floors make a run "
                     "that did not exercise every pair inconclusive.",
                note=SAN_NOTE),
    "C02": dict(ready=True, engine="two-party-engine", level="exploration", design_ref="DESIGN.md section 3 / C02, notes/c02.md",
                technique="reference-model monitor: opened types vs. index component of the stack secret; bijection/rotation checks; import acceptance vs. sort-and-compare reference",
                text="Every shuffle produced by the workload (all n! given permutations for n<=5, generated and cyclic secrets "
                     "for n=1..64,128,511,512, chains of shuffles by several players, both encodings, repeated types) is opened "
                     "card by card and compared with type(in[pi[i]]); generated secrets must be bijections / rotations by the "
                     "reported offset; import() must accept exactly the bijective index vectors (all n^n vectors for small n, "
                     "out-of-range values, import into used objects).",
                note=SAN_NOTE),
    "C06": dict(ready=True, engine="case-runner", level="fault_enumeration", design_ref="DESIGN.md section 3 / C06, notes/c06.md",
                technique="differential monitor: CheckGroup/CheckElement verdict vs. an independent GMP reference predicate over a single-field corruption catalogue",
                text="For 36 class descriptors (every group-carrying class, stream and parameter constructors, canonical on/off) each "
                     "generated set and each single-field corruption from a fixed catalogue (19 corruptions x 151 class/field cells, "
                     "other-valid-generator swaps, size and gcd variants) is re-imported and the library verdict must EQUAL the "
                     "reference verdict (so valid alternatives must be accepted); CheckElement is compared exhaustively over "
                     "[-2,p+2] on toy groups and sampled at 512 bits.  A fixed catalogue at every field is fault enumeration.",
                note=SAN_NOTE + "; reference predicate in harness/c06_ref.hh (plain GMP, 64 Miller-Rabin rounds); negative fields and TestMembership recorded, not judged"),
    "C07": dict(ready=True, engine="interposition", level="exploration", design_ref="DESIGN.md section 3 / C07, notes/c07.md",
                technique="statistical monitor: hard range oracle on every draw + chi-square goodness of fit (p<1e-9, re-test on an independent stream before alarm), p-values cross-checked by a Python reference",
                text="289 multinomial tables per run (full n! histograms n=3..6, position x value and adjacent-pair marginals up to n=64, "
                     "rotation offsets, bounded sampler for small moduli and moduli just above 2^63, residue sampler for 32 moduli (small, 2^k+-1, word aligned, and bit lengths just below a multiple of 8/64), "
                     "bit strings) over ~5.6e7 draws with the interposed PRNG, plus a stage with the real libgcrypt RNG at all three "
                     "quality levels; every draw is range-checked.  Statistical exploration is what uniformity admits; biases below "
                     "~1/sqrt(N) per cell are out of reach.",
                note="fast (-O2) flavour, asserts on; false-alarm rate ~1e-18 per table by the two-sample rule; trusted: the chi-square implementation (cross-checked by ref/c07_chi2.py)"),
    "C08": dict(ready=True, engine="two-party-engine", level="exploration", design_ref="DESIGN.md section 3 / C08, notes/c08.md",
                technique="sequential reference-model monitor (set of accepted contributions, h recomputed with GMP and again in Python) after every API call",
                text="After every UpdateKey/RemoveKey/Finalize of every player instance h must equal h_own * prod(accepted) mod p and "
                     "NumberOfKeys must equal the model; all k! processing orders for k<=4, random add/remove histories for k<=8, a "
                     "malformed-contribution catalogue (3 fields x 17 mutations, crafted order-2 key) through both calls, both group "
                     "classes, closing masking/decryption round.  An offline Python model re-judges every recorded operation.",
                note=SAN_NOTE + "; duplicate re-submissions recorded, not judged"),
    "C09": dict(ready=True, engine="case-runner", level="exploration", design_ref="DESIGN.md section 3 / C09, notes/c09.md",
                technique="differential monitor against two independent references (GMP in the driver, Python big integers offline) over exhaustive small sweeps and random large operands",
                text="~3.6e7 evaluations per quick run: all exponentiation variants over all odd moduli < 200 and random 64..2048-bit "
                     "operands with all exponent classes and documented refusals; square roots for 306 primes with all residues and "
                     "276 Blum products; 2.7e7 interpolations incl. colliding abscissae; prime generators; mpz<->gcry_mpi; TMCG_Bigint "
                     "on both back ends vs. a Python model.  Full sweeps on the -O2 build, a sample under ASan+UBSan.",
                note="fast flavour for the sweeps, san flavour for ~10% of the cases; trusted: GMP reference calls, ref/c09_ref.py"),
    "C10": dict(ready=True, engine="case-runner", level="fault_enumeration", design_ref="DESIGN.md section 3 / C10, notes/c10.md",
                technique="round-trip and tamper monitor with a Python reference deciding equivalence (same square mod m) for every mutated field",
                text="Eight Rabin keys per run (424..1024 bit, with and without validity proof): signature and encryption round trips "
                     "(all four roots; 1200 bulk round trips per key so that padded-block classes of probability 2^-8 occur), and the QR mutation catalogue on every field of signature, ciphertext and key text, forged "
                     "SAEP/PRab paddings, re-signed invalid keys (fewer proof rounds, altered proof values); a Python reference "
                     "re-decides every recorded evaluation.",
                note=SAN_NOTE),
    "C11": dict(ready=True, engine="simnet", level="exploration", design_ref="DESIGN.md section 3 / C11, notes/c11.md",
                technique="round-trip monitor: export(import(export(x))) == export(x) and member/operator== comparison, incl. protocol states from real simulated n-party runs",
                text="~5000 objects per quick run: cards and card secrets for every (players, type bits) pair into fresh and used "
                     "objects, VTMF cards, stacks and stack secrets up to 512 cards (also through the stream operators), keys, group "
                     "parameter sets of 8 classes, 186 protocol states of PedersenVSS / DKG / RVSS / ZVSS / DSS produced by SimNet runs "
                     "(n=2..5), integers incl. the longest accepted text and refused longer ones.",
                note=SAN_NOTE + "; types without importer (TMCG_OpenStack, TMCG_PublicKeyRing, JL RVSS/EDCF, NTS) are out"),
    "C13": dict(ready=True, engine="interposition", level="fault_enumeration", design_ref="DESIGN.md section 3 / C13, notes/c13.md",
                technique="trace checker over SEND/WIRE/FEED/FAULT/RECV events of a harness-owned byte relay: equality / prefix / subsequence oracles per mode, re-judged offline in Python",
                text="Both channel classes x all 8 flag combinations: every single split point and every pair of split points of short "
                     "exchanges (2.9e5), random chunking of 200-message runs on 3 links with the three schedulers, values 0..maximum "
                     "size, negative values; every byte fault (flip, overwrite, insert, duplicate, delete, truncate) at every offset "
                     "and record faults (remove, replay, swap, foreign, forged) with subsequence resp. prefix oracles in the "
                     "authenticated modes; equal-integer and digit-exposure probes in the encrypted modes.",
                note=SAN_NOTE + "; confidentiality is a smoke test only; time is virtual (Receive time-out 0)"),
    "C04": dict(ready=True, engine="two-party-engine", level="exploration", design_ref="DESIGN.md section 3 / C04, notes/c04.md",
                technique="refusal monitor over false statements (each first confirmed false with the harness's secrets) and an accept-iff-guess-equals-observed-challenge monitor with scripted verifier coins",
                text="~1460 runs with false statements (substituted, duplicated, dropped, re-typed, non-member cards; non-cyclic "
                     "permutations for the rotation verifiers; type-changing masks with 1, 2 and several flipped mask bits; shares of another key; shifted key shares) over "
                     "all variants and both encodings, proved by the library prover on the false statement or by replay of an "
                     "honest transcript; ~2000 (guess, coin) pairs of guessing provers against the cut-and-choose verifiers, "
                     "exhaustive for kappa<=4 (kappa<=8 thorough): accepted iff the guess equals the challenge string seen on the wire.",
                note=SAN_NOTE + "; only the listed prover strategies are covered (soundness against arbitrary provers is computational); one open known finding (maskcard-qr)"),
    "C05": dict(ready=True, engine="two-party-engine", level="fault_enumeration", design_ref="DESIGN.md section 3 / C05, notes/c05.md",
                technique="tamper oracle: a fixed mutation catalogue applied to every prover line (man-in-the-middle relay), every public input handle and alternative self-consistent verifier objects; verdict must be refusal",
                text="For all 39 prover/verifier pairs an accepted run is re-run once per (target, mutation): every prover->verifier "
                     "line (fields of structured lines individually) under +1, other member/residue, +q, +p, negation, delete "
                     "(full catalogue in the thorough tier), every public input under +1/other member, and verifier objects built "
                     "from another group / generator / extra key share.  ~8000 verifier runs per quick run; mutations equal to the "
                     "original are skipped and counted.",
                note=SAN_NOTE + "; public inputs +p/+q and non-member public inputs are recorded, not judged (C06's subject); QR family: -v, m-v, v+m recorded only"),
    "C12": dict(ready=True, engine="case-runner", level="fault_enumeration", design_ref="DESIGN.md section 3 / C12, notes/c12.md",
                technique="sanitizer-instrumented structure-aware mutation of valid artefacts over 111 entry points plus coverage-guided libFuzzer passes; outcome oracle = clean refusal",
                text="23 600 mutated inputs per quick run (13-20 mutation classes x 111 entry points: importers, stream "
                     "constructors + CheckGroup, key operations, the reading side of every verifier with a hostile peer, OpenPGP "
                     "armor/packet/key/message parsers followed by verify/decrypt, both channel receivers) under ASan+UBSan with "
                     "memory-class checks fatal, plus bounded libFuzzer runs on the OpenPGP targets (thorough: 7 targets, 1e6-2e6 "
                     "executions each, memcheck replay).  Any crash, abort, sanitizer report, hang or >3 GiB allocation is a keyed violation.",
                note="san flavour (g++ ASan/UBSan) and fuzz flavour (clang-14 libFuzzer+ASan+UBSan); value-class UBSan checks are observations; ASan red zones miss far/intra-object overflows; budgets registered are below what was soaked clean"),
    "C14": dict(ready=True, engine="case-runner", level="exploration", design_ref="DESIGN.md section 3 / C14, notes/c14.md",
                technique="online + offline trace checker over HANDOVER/SENT/API/DELIVER events of a harness-owned step network driving the real broadcast implementation under controlled message schedules",
                text="~3000 schedules per quick run (random, PCT-style priority, starved-link, all schedules of one broadcast for "
                     "n=2, bounded-deviation enumeration for n=4, directed) for n in {2,3,4,5,7} with harness-fabricated Byzantine "
                     "parties, FIFO on/off, channel scripts and both delivery APIs; oracles: agreement, no duplication, no creation, "
                     "FIFO order, channel isolation, echo/ready discipline, and validity/totality at quiescence of the closed system.",
                note=SAN_NOTE + "; 'eventually' is replaced by quiescence of a closed system; no protocol-model exhaustiveness (other technique family); n<=7"),
    "C15": dict(ready=True, engine="simnet", level="exploration", design_ref="DESIGN.md section 3 / C15, notes/c15.md",
                technique="end-state monitor with an independent Lagrange interpolation over every (t+1)-subset of honest shares, after real n-party runs in the deterministic simulator with scripted deviations",
                text="229 scenarios per quick run over six protocols (PedersenVSS, New-DKG, Joint-RVSS/ZVSS, CGJKR DKG incl. Refresh, "
                     "JL-RVSS), n=2..7, every faulty singleton for n=4,5, deviations: built-in faulty switch, wrong share, false "
                     "complaint, silence, altered broadcast, bad reveal, shifted sharing, unanswered complaint; thresholds n/3 <= t < n/2 with the broadcast configured at floor((n-1)/3) and deviating parties within it; honest-only runs with link delays and "
                     "pre-emption; QUAL/y/commitment agreement, share relations, every-subset interpolation, Reconstruct, Refresh, "
                     "and honest-timeout/split-timeout liveness markers within the synchrony assumption.",
                note=SAN_NOTE + "; adversaries are scripted, not adaptive; virtual time keeps runs inside the synchrony assumption; open known findings listed in KNOWN_FINDINGS.txt"),
    "C16": dict(ready=True, engine="simnet", level="exploration", design_ref="DESIGN.md section 3 / C16, notes/c16.md",
                technique="offline Python verifier (textbook Schnorr/DSA equations, library hash re-implemented with hashlib) over the outputs of simulated threshold signing runs; differential range-boundary probes of the library verifiers",
                text="Threshold Schnorr (NTS) and threshold DSS runs in the simulator for n=3..5 (..7 thorough), messages "
                     "{0,1,q-1,q,random}, faulty signer sets (library switch, scripted coins, corrupted key share, one altered broadcast at enumerated positions of the signing phase), before/after Refresh, reduced signer sets: every honest party whose "
                     "Sign returned true must hold the same signature, valid under the jointly generated key by an independent "
                     "implementation; Verify must agree with the reference on the range-boundary catalogue.",
                note=SAN_NOTE + "; signing runs that return false under faults are recorded, not judged"),
    "C17": dict(ready=True, engine="two-party-engine", level="exploration", design_ref="DESIGN.md section 3 / C17, notes/c17.md",
                technique="value-based trace monitor on the line channel (share not on the wire before the peer's commitment was read), agreement/sum oracle, binding oracle under the mutation catalogue; n-party runs in the simulator",
                text="~400 two-party flips per quick run with harness peers (honest, withholding, adaptive, copycat, mismatching "
                     "openings, mutated lines) in both roles, plus 71 n-party scenarios (n=2..5, slow party, single faulty "
                     "parties, scripted deviations: wrong sub-share to one victim and/or the k-th own broadcast altered for every k): outputs agree and equal the sum of the qualified shares; the honest share never appears on the wire "
                     "before every commitment arrived; mismatching openings are rejected / reconstructed.",
                note=SAN_NOTE),
    "C18": dict(ready=True, engine="two-party-engine", level="exploration", design_ref="DESIGN.md section 3 / C18, notes/c18.md",
                technique="output == M_sigma monitor, curious-chooser decryption attempts with the chooser's own secrets, blinding-pair distinctness, refusal of malformed first moves vs. an independent well-formedness predicate",
                text="832 library transfers per quick run (1-of-2, 1-of-N, optimised 1-of-N; all N<=16, 32, 64; every index for "
                     "N<=16), 216 curious-chooser transfers with 4230 decryption attempts on the unchosen ciphertexts, ~1050 "
                     "malformed first moves (coinciding z values, non-members, catalogue).",
                note=SAN_NOTE + "; hiding of unchosen messages is computational: only the chooser's own-secret decryption is tested"),
    "C19": dict(ready=True, engine="case-runner", level="exploration", design_ref="DESIGN.md section 3 / C19, notes/c19.md",
                technique="differential monitor: emitted octets vs. an independent Python reference written from RFC 4880 (+ cited extensions), round-trip decode, GnuPG as second parser, refusal catalogue for damaged armor",
                text="~22 000 byte-for-byte recomputations per quick run (radix-64, CRC-24, armor, body lengths incl. partial, MPIs, "
                     "S2K for 9 hashes x 24 count octets, fingerprints/key ids v4+v5, public/secret key, signature, PKESK packets "
                     "for all supported algorithms), ~45 000 round-trip/refusal evaluations, 98 gpg --list-packets/--import runs "
                     "comparing 433 packets field by field.",
                note=SAN_NOTE + "; v5/AEAD framing is judged by the Python reference only (gpg 2.2 does not implement it); if gpg cannot start the sub-oracle is reported as not observed"),
    "C20": dict(ready=True, engine="case-runner", level="fault_enumeration", design_ref="DESIGN.md section 3 / C20, notes/c20.md",
                technique="tamper oracle: every octet of signatures, keys, documents and ciphertexts flipped plus structural tampers and validity-time scenarios; positive oracle incl. GnuPG for the RFC 4880 subset; AEAD nonce-uniqueness monitor via interposed gcry_cipher_setiv",
                text="477 artefacts per quick run (18 signature kinds x v4/v5 x RSA/DSA/ECDSA/EdDSA x 9 hashes; SEIPD, AEAD EAX/OCB x 7 "
                     "ciphers, SED, PKESK RSA/ElGamal/ECDH, SKESK) with ~370 000 single-octet flips, 2700 structural tampers "
                     "(chunk reorder/drop, tag drop, retag as SED, injected unhashed subpackets) and 1120 validity scenarios "
                     "(expired, older than key, future, weak hash) through the virtual clock; gpg verifies/decrypts the RFC 4880 subset.",
                note=SAN_NOTE + "; gpg verdicts on ECDSA/EdDSA are recorded, not judged (outside the RFC 4880 subset); flips in unhashed areas are judged only if a different signed content is accepted"),
}
