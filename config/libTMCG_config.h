/* libTMCG_config.h.  Generated from libTMCG_config.h.in by configure.  */
/* libTMCG_config.h.in.  Generated from configure.ac by autoheader.  */

/* Define to enable optional Botan support for randomness */
/* #undef BOTAN */

/* Define to enable the forking tests */
#define FORKING /**/

/* Define to 1 if you have the `abs' function. */
#define HAVE_ABS 1

/* Define to 1 if you have the <algorithm> header file. */
#define HAVE_ALGORITHM 1

/* Define to 1 if you have the <assert.h> header file. */
#define HAVE_ASSERT_H 1

/* Define to 1 if you have the <botan/rng.h> header file. */
/* #undef HAVE_BOTAN_RNG_H */

/* Define to 1 if you have the <botan/version.h> header file. */
/* #undef HAVE_BOTAN_VERSION_H */

/* Define to 1 if you have the <cassert> header file. */
#define HAVE_CASSERT 1

/* Define to 1 if you have the `clock' function. */
#define HAVE_CLOCK 1

/* Define to 1 if you have the `close' function. */
#define HAVE_CLOSE 1

/* Define to 1 if you have the <cstdarg> header file. */
#define HAVE_CSTDARG 1

/* Define to 1 if you have the <cstddef> header file. */
#define HAVE_CSTDDEF 1

/* Define to 1 if you have the <cstdio> header file. */
#define HAVE_CSTDIO 1

/* Define to 1 if you have the <cstdlib> header file. */
#define HAVE_CSTDLIB 1

/* Define to 1 if you have the <cstring> header file. */
#define HAVE_CSTRING 1

/* Define to 1 if you have the `ctime' function. */
#define HAVE_CTIME 1

/* Define to 1 if you have the <dlfcn.h> header file. */
#define HAVE_DLFCN_H 1

/* Define to 1 if you have the <errno.h> header file. */
#define HAVE_ERRNO_H 1

/* Define to 1 if you have the <exception> header file. */
#define HAVE_EXCEPTION 1

/* Define to 1 if you have the `fcntl' function. */
#define HAVE_FCNTL 1

/* Define to 1 if you have the <fcntl.h> header file. */
#define HAVE_FCNTL_H 1

/* Define to 1 if you have the `fork' function. */
#define HAVE_FORK 1

/* Define to 1 if you have the `fprintf' function. */
#define HAVE_FPRINTF 1

/* Define to 1 if you have the <fstream> header file. */
#define HAVE_FSTREAM 1

/* Define to 1 if you have the <functional> header file. */
#define HAVE_FUNCTIONAL 1

/* Define to 1 if you have the <gcrypt.h> header file. */
#define HAVE_GCRYPT_H 1

/* Define to 1 if you have the <gmp.h> header file. */
#define HAVE_GMP_H 1

/* Define to 1 if you have the `gmtime_r' function. */
#define HAVE_GMTIME_R 1

/* Define to 1 if you have the <inttypes.h> header file. */
#define HAVE_INTTYPES_H 1

/* Define to 1 if you have the <iomanip> header file. */
#define HAVE_IOMANIP 1

/* Define to 1 if you have the <iostream> header file. */
#define HAVE_IOSTREAM 1

/* Define to 1 if you have the `kill' function. */
#define HAVE_KILL 1

/* Define to 1 if you have the <limits.h> header file. */
#define HAVE_LIMITS_H 1

/* Define to 1 if you have the <list> header file. */
#define HAVE_LIST 1

/* Define to 1 if your system has a GNU libc compatible `malloc' function, and
   to 0 otherwise. */
#define HAVE_MALLOC 1

/* Define to 1 if you have the <map> header file. */
#define HAVE_MAP 1

/* Define to 1 if you have the `memcmp' function. */
#define HAVE_MEMCMP 1

/* Define to 1 if you have the `memcpy' function. */
#define HAVE_MEMCPY 1

/* Define to 1 if you have the `memmove' function. */
#define HAVE_MEMMOVE 1

/* Define to 1 if you have the `memset' function. */
#define HAVE_MEMSET 1

/* Define to 1 if you have the `open' function. */
#define HAVE_OPEN 1

/* Define to 1 if you have the `perror' function. */
#define HAVE_PERROR 1

/* Define to 1 if you have the `pipe' function. */
#define HAVE_PIPE 1

/* Define to 1 if you have the `pipe2' function. */
#define HAVE_PIPE2 1

/* Defined if libgmp have mpz_powm_sec() function */
#define HAVE_POWMSEC /**/

/* Define to 1 if the system has the type `ptrdiff_t'. */
#define HAVE_PTRDIFF_T 1

/* Define to 1 if you have the `read' function. */
#define HAVE_READ 1

/* Define to 1 if you have the `remove' function. */
#define HAVE_REMOVE 1

/* Define to 1 if you have the `select' function. */
#define HAVE_SELECT 1

/* Define to 1 if you have the <signal.h> header file. */
#define HAVE_SIGNAL_H 1

/* Define to 1 if you have the `sleep' function. */
#define HAVE_SLEEP 1

/* Define to 1 if you have the `snprintf' function. */
#define HAVE_SNPRINTF 1

/* Define to 1 if you have the `sscanf' function. */
#define HAVE_SSCANF 1

/* Define to 1 if you have the <sstream> header file. */
#define HAVE_SSTREAM 1

/* Define to 1 if you have the <stdexcept> header file. */
#define HAVE_STDEXCEPT 1

/* Define to 1 if you have the <stdint.h> header file. */
#define HAVE_STDINT_H 1

/* Define to 1 if you have the <stdio.h> header file. */
#define HAVE_STDIO_H 1

/* Define to 1 if you have the <stdlib.h> header file. */
#define HAVE_STDLIB_H 1

/* Define to 1 if you have the <string> header file. */
#define HAVE_STRING 1

/* Define to 1 if you have the <strings.h> header file. */
#define HAVE_STRINGS_H 1

/* Define to 1 if you have the <string.h> header file. */
#define HAVE_STRING_H 1

/* Define to 1 if you have the `strrchr' function. */
#define HAVE_STRRCHR 1

/* Define to 1 if you have the `strtoul' function. */
#define HAVE_STRTOUL 1

/* Define to 1 if you have the <sys/select.h> header file. */
#define HAVE_SYS_SELECT_H 1

/* Define to 1 if you have the <sys/stat.h> header file. */
#define HAVE_SYS_STAT_H 1

/* Define to 1 if you have the <sys/types.h> header file. */
#define HAVE_SYS_TYPES_H 1

/* Define to 1 if you have the <sys/wait.h> header file. */
#define HAVE_SYS_WAIT_H 1

/* Define to 1 if you have the `time' function. */
#define HAVE_TIME 1

/* Define to 1 if you have the <time.h> header file. */
#define HAVE_TIME_H 1

/* Define to 1 if you have the <unistd.h> header file. */
#define HAVE_UNISTD_H 1

/* Define to 1 if you have the <utility> header file. */
#define HAVE_UTILITY 1

/* Define to 1 if you have the <vector> header file. */
#define HAVE_VECTOR 1

/* Define to 1 if you have the `vfork' function. */
#define HAVE_VFORK 1

/* Define to 1 if you have the <vfork.h> header file. */
/* #undef HAVE_VFORK_H */

/* Define to 1 if you have the `waitpid' function. */
#define HAVE_WAITPID 1

/* Define to 1 if `fork' works. */
#define HAVE_WORKING_FORK 1

/* Define to 1 if `vfork' works. */
#define HAVE_WORKING_VFORK 1

/* Define to 1 if you have the `write' function. */
#define HAVE_WRITE 1

/* Define to the sub-directory where libtool stores uninstalled libraries. */
#define LT_OBJDIR ".libs/"

/* Define to 1 if assertions should be disabled. */
/* #undef NDEBUG */

/* Name of this package */
#define PACKAGE "LibTMCG"

/* Define to the address where bug reports for this package should be sent. */
#define PACKAGE_BUGREPORT "HeikoStamer@gmx.net"

/* Define to the full name of this package. */
#define PACKAGE_NAME "LibTMCG"

/* Define to the full name and version of this package. */
#define PACKAGE_STRING "LibTMCG 1.4.0"

/* Define to the one symbol short name of this package. */
#define PACKAGE_TARNAME "libTMCG"

/* Define to the home page for this package. */
#define PACKAGE_URL "https://www.nongnu.org/libtmcg/"

/* Define to the version of this package. */
#define PACKAGE_VERSION "1.4.0"

/* The size of `unsigned long int', as computed by sizeof. */
#define SIZEOF_UNSIGNED_LONG_INT 8

/* Define to 1 if all of the C90 standard headers exist (not just the ones
   required in a freestanding environment). This macro is provided for
   backward compatibility; new code need not use it. */
#define STDC_HEADERS 1

/* Define the security parameter for hiding the length of integers. */
#define TMCG_AIO_HIDE_SIZE 256

/* Define the security parameter of the DDH-hard group G; Underlying
   assumptions: DDH, CDH, DLOG */
#define TMCG_DDH_SIZE 2048

/* Define the security parameter of the used exponents (subgroup size);
   Underlying assumptions: DLSE (related to DDH), DLOG */
#define TMCG_DLSE_SIZE 256

/* Define the cipher for encryption of private channels */
#define TMCG_GCRY_ENC_ALGO GCRY_CIPHER_AES256

/* Define the message authentication algorithm for authenticated channels */
#define TMCG_GCRY_MAC_ALGO GCRY_MAC_HMAC_SHA256

/* Define the message digest algorithm for signatures and FS-heuristic;
   Underlying assumption: Random Oracle Model */
#define TMCG_GCRY_MD_ALGO GCRY_MD_SHA256

/* Define the security parameter for the soundness of the interactive argument
   for Groth's VSSHE and SKC. */
#define TMCG_GROTH_L_E 80

/* Define whether hashed commitments (short values) should be used; Underlying
   assumption: Random Oracle Model */
#define TMCG_HASH_COMMITMENT true

/* Define the size of the unique TMCG key ID (in characters) */
#define TMCG_KEYID_SIZE 8

/* Define the maximum soundness error probability of the TMCG public key; NIZK
   proof (Gennaro, Micciancio, Rabin), Stage 1: m is square free;
   d^{-TMCG_KEY_NIZK_STAGE1} with d = ... */
#define TMCG_KEY_NIZK_STAGE1 16

/* Define the maximum soundness error probability of the TMCG public key; NIZK
   proof (Gennaro, Micciancio, Rabin), Stage 2: m is prime power product;
   2^{-TMCG_KEY_NIZK_STAGE2} */
#define TMCG_KEY_NIZK_STAGE2 128

/* Define the maximum soundness error probability for the TMCG public key;
   NIZK proof (Goldwasser, Micali); Stage 3: y \in NQR^\circ_m;
   2^{-TMCG_KEY_NIZK_STAGE3} */
#define TMCG_KEY_NIZK_STAGE3 128

/* Define the necessary version number of the GNU gcrypt library */
#define TMCG_LIBGCRYPT_VERSION "1.8.0"

/* Define the necessary version number of the GNU gmp library */
#define TMCG_LIBGMP_VERSION "6.1.2"

/* Define the maximum number of stackable cards */
#define TMCG_MAX_CARDS 512

/* Define a helping macro */
#define TMCG_MAX_CARD_CHARS (TMCG_MAX_PLAYERS * TMCG_MAX_TYPEBITS * TMCG_MAX_VALUE_CHARS)

/* Define the maximum number of parties for DKG protocols. */
#define TMCG_MAX_DKG_PLAYERS 256

/* Define the maximum number of bases for doing the precomputation */
#define TMCG_MAX_FPOWM_N 256

/* Define the maximum size of the exponent for fast exponentiation */
#define TMCG_MAX_FPOWM_T 2048

/* Define a helping macro */
#define TMCG_MAX_KEYBITS ((TMCG_DDH_SIZE > TMCG_QRA_SIZE) ? (8UL * TMCG_DDH_SIZE) :\
 (8UL * TMCG_QRA_SIZE))

/* Define a helping macro */
#define TMCG_MAX_KEY_CHARS (TMCG_MAX_VALUE_CHARS * 1024UL)

/* Define the maximum number of players in the scheme of Schindelhauer */
#define TMCG_MAX_PLAYERS 32

/* Define the maximum size of mpz_ssrandomm_cache */
#define TMCG_MAX_SSRANDOMM_CACHE 256

/* Define a helping macro */
#define TMCG_MAX_STACK_CHARS (TMCG_MAX_CARDS * TMCG_MAX_CARD_CHARS)

/* Define the number of bits which represents the maximum number of different
   card types in the scheme of Schindelhauer and the maximum size of the
   message space in the scheme of Barnett and Smart */
#define TMCG_MAX_TYPEBITS 10

/* Define a helping macro */
#define TMCG_MAX_VALUE_CHARS (TMCG_MAX_KEYBITS / 4UL)

/* Define the maximum number of iterations for the prover in cut-and-choose
   style zero-knowledge protocols of Schindelhauer's toolbox. This limits the
   soundness error probability to 2^{-TMCG_MAX_ZNP_ITERATIONS}, however, it
   also protects against some obvious denial-of-service attacks. */
#define TMCG_MAX_ZNP_ITERATIONS 80

/* Define the input/ouput base encoding of the iostream operators */
#define TMCG_MPZ_IO_BASE 62

/* Define the number of iterations for the Miller-Rabin primality test.
   (maximum soundness error probability 4^{-TMCG_MR_ITERATIONS}) */
#define TMCG_MR_ITERATIONS 64

/* Define the initial value for OPENPGP CRC24 algorithm */
#define TMCG_OPENPGP_CRC24_INIT 0xB704CE

/* Define the generator for OPENPGP CRC24 algorithm */
#define TMCG_OPENPGP_CRC24_POLY 0x1864CFB

/* Define the maximum number of memory to allocate for OpenPGP packet decoding
   structures */
#define TMCG_OPENPGP_MAX_ALLOC 2147483645UL

/* Define the maximum number of characters in a single line of Radix-64
   encoding */
#define TMCG_OPENPGP_RADIX64_MC 64

/* Define the security parameter for the signature generation with Rabin/PRab
   */
#define TMCG_PRAB_K0 20

/* Define the security parameter of the TMCG public key; Underlying
   assumptions: QRA, FACTOR */
#define TMCG_QRA_SIZE 2048

/* Define the security parameter for the encryption with Rabin/SAEP */
#define TMCG_SAEP_S0 20

/* Version of this package */
#define VERSION "1.4.0"

/* Define for Solaris 2.5.1 so the uint32_t typedef from <sys/synch.h>,
   <pthread.h>, or <semaphore.h> is not used. If the typedef were allowed, the
   #define below would cause a syntax error. */
/* #undef _UINT32_T */

/* Define for Solaris 2.5.1 so the uint64_t typedef from <sys/synch.h>,
   <pthread.h>, or <semaphore.h> is not used. If the typedef were allowed, the
   #define below would cause a syntax error. */
/* #undef _UINT64_T */

/* Define for Solaris 2.5.1 so the uint8_t typedef from <sys/synch.h>,
   <pthread.h>, or <semaphore.h> is not used. If the typedef were allowed, the
   #define below would cause a syntax error. */
/* #undef _UINT8_T */

/* Define to empty if `const' does not conform to ANSI C. */
/* #undef const */

/* Define to `__inline__' or `__inline' if that's what the C compiler
   calls it, or to nothing if 'inline' is not supported under any name.  */
#ifndef __cplusplus
/* #undef inline */
#endif

/* Define to rpl_malloc if the replacement function should be used. */
/* #undef malloc */

/* Define as a signed integer type capable of holding a process identifier. */
/* #undef pid_t */

/* Define to `unsigned int' if <sys/types.h> does not define. */
/* #undef size_t */

/* Define to `int' if <sys/types.h> does not define. */
/* #undef ssize_t */

/* Define to the type of an unsigned integer type of width exactly 16 bits if
   such a type exists and the standard includes do not define it. */
/* #undef uint16_t */

/* Define to the type of an unsigned integer type of width exactly 32 bits if
   such a type exists and the standard includes do not define it. */
/* #undef uint32_t */

/* Define to the type of an unsigned integer type of width exactly 64 bits if
   such a type exists and the standard includes do not define it. */
/* #undef uint64_t */

/* Define to the type of an unsigned integer type of width exactly 8 bits if
   such a type exists and the standard includes do not define it. */
/* #undef uint8_t */

/* Define as `fork' if `vfork' does not work. */
/* #undef vfork */
